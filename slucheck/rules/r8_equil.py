"""R8 `equil`: ?mach constants, ?laqgs letter <-> factor pairing and threshold rule, ?gsequ clamp / info convention."""
import re
from ..facts import strip, callee_name, const_value, loc, root_ref
from ..ir import pretty
from . import r3_dispatch as r3
from . import r2_argcheck as r2
from ..props._drv import Flags, Expect, ppos

# IEEE-754 constants as exact powers of two
C = {
    'd': {'eps': 2.0 ** -53, 'min': 2.0 ** -1022, 'max': (2.0 - 2.0 ** -52) * 2.0 ** 1023, 'base': 2.0, 'digits': 53.0, 'emin': -1021.0, 'emax': 1024.0},
    's': {'eps': 2.0 ** -24, 'min': 2.0 ** -126, 'max': (2.0 - 2.0 ** -23) * 2.0 ** 127, 'base': 2.0, 'digits': 24.0, 'emin': -125.0, 'emax': 128.0},
}


def mach_expected(prec, letter):
    k = C[prec]
    sfmin = k['min']
    small = 1.0 / k['max']
    if small >= sfmin:
        sfmin = small * (1.0 + k['eps'])
    return {'E': k['eps'], 'S': sfmin, 'B': k['base'], 'P': k['eps'] * k['base'], 'N': k['digits'], 'M': k['emin'], 'U': k['min'],
            'L': k['emax'], 'O': k['max']}.get(letter)


def close(a, b):
    return isinstance(a, (int, float)) and isinstance(b, (int, float)) and abs(a - b) <= 1e-6 * max(abs(a), abs(b), 1e-300)


def mach_oracle(chk, cid, prog, eff, mp, cfgname):
    """mp: 'd' or 's'  ->  function dmach / smach"""
    f = prog.func(mp + 'mach')
    if f is None:
        return 0
    fl = Flags(prog, f, mp)
    letters = 'ESBPNMULO'
    fl.add('cmach', '*$1', [ord(c) for c in letters], list(letters))
    eng = r3.Engine(prog, f, fl.flags, callees=lambda n: n == 'input_error', eff=eff)
    leaves = eng.run()
    ex = Expect(chk, cid, f, fl, cfgname)
    for lf in leaves:
        L = chr(lf.val['cmach'])
        rets = lf.returns()
        vals = {r['value'] for r in rets}
        want = mach_expected(mp, L)
        ok = len(vals) == 1 and close(list(vals)[0], want) and not lf.calls('input_error')
        ex.check(lf, ok, 'machine-constant', ['cmach'], '%smach("%s") must return %r (LAPACK ?lamch definition), the code returns %s' % (mp, L, want, sorted(map(str, vals))),
                 rets[0]['line'] if rets else None)
    return len(leaves)


def mach_pure(prec):
    mp = 'd' if prec in 'dz' else 's'

    def fn(eng, vals, env):
        s = eng.string_of(vals[0], env) if vals else None
        if s:
            v = mach_expected(mp, s[:1].upper())
            if v is not None:
                return v
        return r3.UNK
    return {mp + 'mach': fn}


def laqgs_oracle(chk, cid, prog, eff, p, cfgname):
    f = prog.func(p + 'laqgs')
    if f is None:
        return 0
    mp = 'd' if p in 'dz' else 's'
    small = mach_expected(mp, 'S') / mach_expected(mp, 'P')
    large = 1.0 / small
    fl = Flags(prog, f, p)
    fl.add('A.nrow', '$1->nrow', [10])
    fl.add('A.ncol', '$1->ncol', [10])
    fl.add('rowcnd', '$4', [0.0999, 0.1], ['<0.1', '>=0.1'])
    fl.add('colcnd', '$5', [0.0999, 0.1], ['<0.1', '>=0.1'])
    fl.add('amax', '$6', [small * 0.5, small, small * 2, 1.0, large * 0.5, large, large * 2], ['<small', '=small', '>small', '1', '<large', '=large', '>large'])
    eng = r3.Engine(prog, f, fl.flags, callees=lambda n: False, eff=eff)
    eng.pure = mach_pure(p)
    leaves = eng.run()
    ex = Expect(chk, cid, f, fl, cfgname)
    An, Rp, Cp, Eq = '$1->Store->nzval', '$2', '$3', '*$7'
    for lf in leaves:
        v = lf.val
        row_ok = v['rowcnd'] >= 0.1 and small <= v['amax'] <= large
        col_ok = v['colcnd'] >= 0.1
        want_letter = {(True, True): 'N', (True, False): 'C', (False, True): 'R', (False, False): 'B'}[(row_ok, col_ok)]
        want_reads = {'N': set(), 'C': {Cp}, 'R': {Rp}, 'B': {Rp, Cp}}[want_letter]
        sel = ['rowcnd', 'colcnd', 'amax']
        eq = [e for e in lf.stores() if e['target'] == Eq]
        letters = {e['value'] for e in eq}
        ok = letters == {ord(want_letter)}
        ex.check(lf, ok, 'equed-letter', sel, 'the threshold rule (THRESH = 0.1, small <= amax <= large) selects equed = %s; the code stores %s'
                 % (want_letter, sorted(chr(x) if isinstance(x, int) else str(x) for x in letters)), eq[0]['line'] if eq else None)
        sc = [e for e in lf.stores() if e['base'] == An]
        used = set()
        for e in sc:
            used |= (e['rhs_reads'] & {Rp, Cp})
        nm = {Rp: 'r', Cp: 'c'}
        ex.check(lf, used == want_reads, 'factors-applied', sel, 'equed = %s means A is multiplied by exactly %s; the code multiplies by %s'
                 % (want_letter, sorted(nm[x] for x in want_reads) or 'nothing', sorted(nm[x] for x in used) or 'nothing'), sc[0]['line'] if sc else None)
        if sc:
            ex.check(lf, all(An in e['rhs_reads'] or e['op'] in ('*=',) for e in sc), 'scaling-is-multiplicative', [], 'each stored entry must be the old entry times the factors',
                     sc[0]['line'])
    return len(leaves)


def gsequ_rules(chk, cid, prog, p, cfgname):
    """structural rules on ?gsequ (no flag exploration needed)"""
    f = prog.func(p + 'gsequ')
    if f is None:
        return 0
    mp = 'd' if p in 'dz' else 's'
    kA, kr, kc, kinfo = ppos(f, 'A'), ppos(f, 'r'), ppos(f, 'c'), ppos(f, 'info')
    pid = {name: i for (name, i, t) in f.params}
    n = 0
    # roles of the two machine-constant locals
    sml = big = None
    for x in f.body.walk():
        if x.k == 'Assign' and x.a['op'] == '=' and strip(x.c[0]).k == 'Ref':
            r = strip(x.c[1])
            if r.k == 'Call' and callee_name(r) == mp + 'mach':
                arg = strip(r.c[1])
                if arg.k == 'Str' and arg.a['value'].strip('"')[:1].upper() == 'S':
                    sml = strip(x.c[0]).a['id']
            elif r.k == 'Binary' and r.a['op'] == '/' and sml is not None and strip(r.c[1]).k == 'Ref' and strip(r.c[1]).a.get('id') == sml \
                    and const_value(r.c[0]) is None and strip(r.c[0]).k in ('Float', 'Int') and float(strip(r.c[0]).a['value']) == 1.0:
                big = strip(x.c[0]).a['id']
    if sml is None or big is None:
        chk.violate(cid, '%s:safe-range-constants' % f.name, loc(f, f.body), f.name,
                    'the safe range must be smlnum = %smach("S"), bignum = 1/smlnum; these two definitions were not found' % mp, cfgname=cfgname)
        return 1

    def role_text(e):
        t = r2.norm(e)
        for x in strip(e).walk():
            if x.k == 'Ref' and x.a.get('id') == sml:
                t = re.sub(r'\b%s\b' % re.escape(x.a['name']), 'SML', t)
            elif x.k == 'Ref' and x.a.get('id') == big:
                t = re.sub(r'\b%s\b' % re.escape(x.a['name']), 'BIG', t)
            elif x.k == 'Ref' and x.a.get('id') in pid.values():
                pass
        return t
    # (1) clamped reciprocals
    for arr, nm in ((kr, 'r'), (kc, 'c')):
        pidv = f.params[arr - 1][1]
        inv = []
        for x in f.body.walk():
            if x.k == 'Assign' and x.a['op'] == '=':
                lv = strip(x.c[0])
                if lv.k == 'Index' and strip(lv.c[0]).k == 'Ref' and strip(lv.c[0]).a.get('id') == pidv:
                    rhs = strip(x.c[1])
                    if rhs.k == 'Binary' and rhs.a['op'] == '/':
                        inv.append((x, lv, rhs))
        n += 1
        if len(inv) != 1:
            chk.violate(cid, '%s:reciprocal-of-%s' % (f.name, nm), loc(f, f.body), f.name,
                        'expected exactly one store %s[k] = 1 / clamp(%s[k]) (found %d)' % (nm, nm, len(inv)), cfgname=cfgname)
            continue
        x, lv, rhs = inv[0]
        el = r2.norm(lv)
        want = '(1.0 / min(BIG, max(SML, %s)))' % el
        got = role_text(rhs)
        alt = {want, '(1.0 / min(BIG, max(%s, SML)))' % el, '(1.0 / min(max(SML, %s), BIG))' % el, '(1.0 / min(max(%s, SML), BIG))' % el,
               '(1.0 / max(SML, min(BIG, %s)))' % el, '(1.0 / max(min(BIG, %s), SML))' % el, '(1.0 / max(SML, min(%s, BIG)))' % el, '(1.0 / max(min(%s, BIG), SML))' % el}
        got1 = got.replace('(1 / ', '(1.0 / ')
        if got1 in alt:
            chk.ok(cid, '%s:clamped-reciprocal-%s' % (f.name, nm), sample=got)
        else:
            chk.violate(cid, '%s:clamped-reciprocal-%s' % (f.name, nm), loc(f, x), f.name,
                        'the scale factor must be 1 / min(max(%s, smlnum), bignum) so that it stays positive, finite and inside the safe range; the code computes %s'
                        % (el, got), cfgname=cfgname)
    # (1b) the reported ratios are min/max of the *clamped* factors: r[k] = 1/clamp(rmax_k), so min(R)/max(R) = clamp(rcmin)/clamp(rcmax)
    for nm in ('rowcnd', 'colcnd'):
        k = ppos(f, nm)
        if not k:
            continue
        pidv = f.params[k - 1][1]
        st = [x for x in f.body.walk() if x.k == 'Assign' and x.a['op'] == '=' and strip(x.c[0]).k == 'Unary' and strip(strip(x.c[0]).c[0]).k == 'Ref'
              and strip(strip(x.c[0]).c[0]).a.get('id') == pidv and strip(x.c[1]).k == 'Binary' and strip(x.c[1]).a['op'] == '/']
        n += 1
        if len(st) != 1:
            chk.violate(cid, '%s:ratio-%s' % (f.name, nm), loc(f, f.body), f.name, 'expected exactly one store *%s = <ratio> (found %d)' % (nm, len(st)), cfgname=cfgname)
            continue
        got = role_text(strip(st[0].c[1]))
        m = re.match(r'^\(max\((.*)\) / min\((.*)\)\)$', got)
        okk = False
        if m:
            a_, b_ = [t.strip() for t in m.group(1).split(',')], [t.strip() for t in m.group(2).split(',')]
            okk = len(a_) == 2 and len(b_) == 2 and 'SML' in a_ and 'BIG' in b_
        if okk:
            chk.ok(cid, '%s:ratio-of-clamped-extremes-%s' % (f.name, nm), sample=got)
        else:
            chk.violate(cid, '%s:ratio-of-clamped-extremes-%s' % (f.name, nm), loc(f, st[0]), f.name,
                        '*%s must be max(smallest maximum, smlnum) / min(largest maximum, bignum): the scale factors are reciprocals of the clamped '
                        'maxima, so the ratio of the unclamped extremes (%s) is not min/max of the factors that are returned when an extreme lies '
                        'outside the safe range' % (nm, got), cfgname=cfgname)
    # (1c) rcmin / rcmax serve the row pass and then the column pass: each pass that folds values into them starts from a fresh
    # initialisation, otherwise the column ratio is the minimum / maximum over rows *and* columns
    top = f.body.c
    folds = {}      # var id -> [(index of the top-level statement, node)]
    inits = {}
    for i, st in enumerate(top):
        for x in st.walk():
            if x.k == 'Assign' and x.a['op'] == '=' and strip(x.c[0]).k == 'Ref':
                vid = strip(x.c[0]).a.get('id')
                mentions = any(y.k == 'Ref' and y.a.get('id') == vid for y in x.c[1].walk())
                if mentions and st.k == 'For':
                    folds.setdefault(vid, []).append((i, x))
                elif not mentions and st.k != 'For':
                    inits.setdefault(vid, []).append(i)
    # a running minimum starts from the top of the range (bignum), a running maximum from the bottom (0): any other start is itself a
    # candidate and caps the result (rcmin = 1. hides every scaled column maximum above 1)
    for vid, fl in sorted(folds.items()):
        kinds_ = set()
        for (_, x) in fl:
            t = r2.norm(x.c[1])
            kinds_.add('min' if t.startswith('min(') else ('max' if t.startswith('max(') else 'other'))
        if kinds_ - {'min', 'max'} or len(kinds_) != 1:
            continue
        kd = next(iter(kinds_))
        nm0 = strip(fl[0][1].c[0]).a.get('name')
        for st in top:
            s0 = strip(st)
            if s0.k == 'Assign' and s0.a['op'] == '=' and strip(s0.c[0]).k == 'Ref' and strip(s0.c[0]).a.get('id') == vid:
                rhs = strip(s0.c[1])
                n += 1
                inst = '%s:%s-starts-at-the-%s-of-the-range@%d' % (f.name, nm0, 'top' if kd == 'min' else 'bottom', s0.line and n)
                good = (kd == 'min' and rhs.k == 'Ref' and rhs.a.get('id') == big) or (kd == 'max' and rhs.k in ('Float', 'Int') and float(rhs.a.get('value')) == 0.0)
                if good:
                    chk.ok(cid, inst, sample=pretty(s0)[:40])
                else:
                    chk.violate(cid, inst, loc(f, s0), f.name,
                                '`%s` starts the running %s at a value that is not the %s of the range (%s): values beyond it are never recorded, so the ratio that is '
                                'reported is computed from a capped extreme' % (pretty(s0)[:40], 'minimum' if kd == 'min' else 'maximum',
                                'top' if kd == 'min' else 'bottom', 'bignum' if kd == 'min' else '0'), cfgname=cfgname)
    for vid, fl in sorted(folds.items()):
        passes = sorted({i for (i, _) in fl})
        if len(passes) < 2:
            continue
        nm = strip(fl[0][1].c[0]).a.get('name')
        for k_, i in enumerate(passes):
            n += 1
            prev = passes[k_ - 1] if k_ else -1
            okk = any(prev < j < i for j in inits.get(vid, []))
            inst = '%s:%s-fresh-for-pass-%d' % (f.name, nm, k_ + 1)
            if okk:
                chk.ok(cid, inst, sample='%s initialised between the passes' % nm)
            else:
                node = [x for (j, x) in fl if j == i][0]
                chk.violate(cid, inst, loc(f, node), f.name,
                            '`%s` folds values into %s in a second pass without a fresh initialisation after the previous pass: the result is the extreme over both '
                            'passes (row maxima and scaled column maxima), so the reported column ratio is not min(C)/max(C)' % (pretty(node)[:50], nm), cfgname=cfgname)
    # (2) info convention for empty rows / columns
    infoid = f.params[kinfo - 1][1]
    Aid = f.params[kA - 1][1]
    stores = []

    def walk(nd, guards):
        if nd.k == 'If':
            walk(nd.c[1], guards + [nd.c[0]])
            if len(nd.c) > 2:
                walk(nd.c[2], guards)
            return
        if nd.k == 'Assign' and r2.is_info_lvalue(nd.c[0], infoid) and const_value(nd.c[1]) is None:
            stores.append((nd, list(guards)))
        for ch in nd.c:
            walk(ch, guards)
    walk(f.body, [])
    # each position report must leave the routine at once (nothing may overwrite it)
    def followed_by_return(root, st):
        for blk in root.walk():
            if blk.k == 'Block':
                for i, x in enumerate(blk.c):
                    if x is st:
                        return i + 1 < len(blk.c) and blk.c[i + 1].k == 'Return'
        return False
    for (st, guards) in stores:
        n += 1
        if not followed_by_return(f.body, st):
            chk.violate(cid, '%s:info-report-returns:%s' % (f.name, pretty(st)[:40]), loc(f, st), f.name,
                        'the position of an all-zero row / column must be returned at once: `%s` is not followed by `return`, so a later report can overwrite it'
                        % pretty(st)[:60], cfgname=cfgname)
        else:
            chk.ok(cid, '%s:info-report-returns:%s' % (f.name, pretty(st)[:40]))
    for (st, guards) in stores:
        n += 1
        g = guards[-1] if guards else None
        reads = {root_ref(x.c[0]).a.get('id') for x in (strip(g).walk() if g is not None else []) if x.k == 'Index' and root_ref(x.c[0]) is not None}
        fields = {x.a['name'] for x in strip(st.c[1]).walk() if x.k == 'Member' and root_ref(x) is not None and root_ref(x).a.get('id') == Aid}
        zero_test = g is not None and strip(g).k == 'Binary' and strip(g).a['op'] == '==' and (const_value(strip(g).c[1]) == 0 or
                                                                                                 (strip(strip(g).c[1]).k == 'Float' and float(strip(strip(g).c[1]).a['value']) == 0.0))
        if f.params[kr - 1][1] in reads:
            ok = zero_test and not fields
            what = 'an all-zero row i is reported as info = i+1 (guarded by r[i] == 0, no matrix dimension added)'
            key = 'row'
        elif f.params[kc - 1][1] in reads:
            ok = zero_test and fields == {'nrow'}
            what = 'an all-zero column j is reported as info = A->nrow + j + 1 (guarded by c[j] == 0); the code stores `%s` under `%s`' % (
                pretty(st)[:80], pretty(g)[:60] if g is not None else '?')
            key = 'col'
        else:
            ok = False
            what = 'a positive info is stored under a condition that tests neither r[] nor c[]'
            key = 'other'
        if ok:
            chk.ok(cid, '%s:info-empty-%s' % (f.name, key), sample=pretty(st)[:60])
        else:
            chk.violate(cid, '%s:info-empty-%s' % (f.name, key), loc(f, st), f.name, what, cfgname=cfgname)
    if len(stores) < 2:
        chk.violate(cid, '%s:info-empty-missing' % f.name, loc(f, f.body), f.name, 'expected the two position reports for an all-zero row and an all-zero column', cfgname=cfgname)
    # (3) magnitude function
    want_abs = {'d': {'fabs'}, 's': {'fabs', 'fabsf'}, 'c': {'c_abs1'}, 'z': {'z_abs1'}}[p]
    mags = [callee_name(x) for x in f.body.walk() if x.k == 'Call' and callee_name(x) in ('fabs', 'fabsf', 'c_abs1', 'z_abs1', 'c_abs', 'z_abs', 'sqrt', 'hypot')]
    n += 1
    if mags and set(mags) <= want_abs and len(mags) >= 2:
        chk.ok(cid, '%s:magnitude-function' % f.name, sample=','.join(sorted(set(mags))))
    else:
        chk.violate(cid, '%s:magnitude-function' % f.name, loc(f, f.body), f.name,
                    'entries must be measured with %s in both the row and the column scan; the code uses %s' % (sorted(want_abs), mags), cfgname=cfgname)
    return n
