"""C10: R3 oracle of get_perm_c (dispatch per ColPerm, index-base pairing around genmmd_), structural rules on get_colamd."""
from ..facts import strip, callee_name, loc, canon, const_value
from ..ir import pretty
from . import r3_dispatch as r3, r7_perm
from ..props._drv import Flags, Expect, ppos, set_through


def get_perm_c_oracle(chk, cid, prog, eff, cfgname):
    f = prog.func('get_perm_c')
    if f is None:
        from ..run import AnalysisBroken
        raise AnalysisBroken('get_perm_c not found')
    chk.saw(unit=f.unit, func=f.unit + ':' + f.name)
    E = prog.enums
    fl = Flags(prog, f, 'd')
    fl.enum('ispec', '$1', ['NATURAL', 'MMD_ATA', 'MMD_AT_PLUS_A', 'COLAMD'])
    fl.add('A.nrow', '$2->nrow', [1009])
    fl.add('A.ncol', '$2->ncol', [1009])
    fl.add('bnz', None, [0, 2003], ['0', '>0'])

    def after_adj(eng, call, vals, env):
        # (..., &bnz, &b_colptr, &b_rowind): bnz becomes a flag, the two arrays fresh blocks
        k = len(vals) - 3
        set_through(env, vals[k], 'bnz')
        for j, nm in ((k + 1, 'colptr'), (k + 2, 'rowind')):
            d = r3.ptr_desc(vals[j])
            if d and d.startswith('&'):
                env[d[1:]] = ('fresh', 'adj_' + nm)
    names = {'getata', 'at_plus_a', 'genmmd_', 'get_colamd', 'get_metis'}
    eng = r3.Engine(prog, f, fl.flags, havoc=[(lambda n: n in ('getata', 'at_plus_a'), after_adj)], callees=lambda n: n in names, eff=eff)
    leaves = eng.run()
    ex = Expect(chk, cid, f, fl, cfgname)
    PC = '$3'
    for lf in leaves:
        v = lf.val
        sp = v['ispec']
        sel = ['ispec', 'bnz']
        st = lf.stores()
        ident = [e for e in st if e['base'] == PC and e['op'] == '=' and e['rhs'] is not None and e['idx'] is not None
                 and canon(e['rhs'], ids=True) == canon(e['idx'], ids=True)]
        calls = {n: lf.calls(n) for n in names}
        if sp == E['NATURAL']:
            ok = bool(ident) and not any(calls.values()) and ident[0]['loops'] and ident[0]['loops'][-1][1] == v['A.ncol']
            ex.check(lf, ok, 'natural-is-identity', ['ispec'], 'NATURAL: perm_c[i] = i for all n columns and nothing else', ident[0]['line'] if ident else None)
            continue
        if sp == E['COLAMD']:
            c = calls['get_colamd']
            ok = len(c) == 1 and c[0]['args'][3:6] == [('path', '$2->Store->colptr'), ('path', '$2->Store->rowind'), ('p', 3)] and not calls['genmmd_']
            ex.check(lf, ok, 'colamd-dispatch', ['ispec'], 'COLAMD: get_colamd(m, n, nnz, A->colptr, A->rowind, perm_c) and nothing else', c[0]['line'] if c else None)
            continue
        adj = calls['getata'] if sp == E['MMD_ATA'] else calls['at_plus_a']
        other = calls['at_plus_a'] if sp == E['MMD_ATA'] else calls['getata']
        ok = len(adj) == 1 and not other and ('path', '$2->Store->colptr') in adj[0]['args'] and ('path', '$2->Store->rowind') in adj[0]['args']
        if not ex.check(lf, ok, 'adjacency-structure', ['ispec'], 'MMD_ATA must order the structure of A\'A (getata), MMD_AT_PLUS_A that of A\'+A (at_plus_a), built from A\'s pattern',
                        (adj + other)[0]['line'] if (adj + other) else None):
            continue
        mm = calls['genmmd_']
        if v.get('bnz') == 0:
            ok = not mm and bool(ident)
            ex.check(lf, ok, 'empty-structure-gives-identity', sel, 'empty adjacency structure (e.g. diagonal A): perm_c must be the identity and genmmd_ must not run',
                     (mm or ident or [{'line': None}])[0]['line'])
            continue
        if not ex.check(lf, len(mm) == 1, 'mmd-called', sel, 'non-empty structure: genmmd_ must run exactly once'):
            continue
        m = mm[0]
        CP, RI = 'fresh@adj_colptr', 'fresh@adj_rowind'
        ok = r3.ptr_desc(m['args'][1]) == CP and r3.ptr_desc(m['args'][2]) == RI and m['args'][3] == ('p', 3)
        ex.check(lf, ok, 'mmd-arguments', sel, 'genmmd_(&n, b_colptr, b_rowind, perm_c, ...) must receive the adjacency arrays just built and write perm_c', m['line'])
        # index-base pairing: the Fortran-derived routine is 1-based
        inc_cp = [e for e in st if e['base'] == CP and e['op'] == '++']
        inc_ri = [e for e in st if e['base'] == RI and e['op'] == '++']
        dec_pc = [e for e in st if e['base'] == PC and e['op'] == '--']
        other_pc = [e for e in st if e['base'] == PC and e['op'] not in ('--',)]

        def bound(e):
            if not e['loops']:
                return None
            d, b, op, bx = e['loops'][-1]
            if isinstance(b, int):
                return b + (1 if op == '<=' else 0)
            return None
        okb = len(inc_cp) == 1 and len(inc_ri) == 1 and bound(inc_cp[0]) == v['A.ncol'] + 1 and bound(inc_ri[0]) == v['bnz'] \
            and all(lf.can_reach(e['node'], m['node']) and not lf.can_reach(m['node'], e['node']) for e in inc_cp + inc_ri)
        ex.check(lf, okb, 'one-based-input', sel,
                 'genmmd_ is 1-based: before the call all n+1 column pointers and all bnz row indices of the private adjacency structure must be incremented exactly once '
                 '(saw %d / %d increment loops with bounds %s / %s)' % (len(inc_cp), len(inc_ri), [bound(e) for e in inc_cp], [bound(e) for e in inc_ri]),
                 (inc_cp + inc_ri + [m])[0]['line'])
        okd = len(dec_pc) == 1 and bound(dec_pc[0]) == v['A.ncol'] and lf.can_reach(m['node'], dec_pc[0]['node']) and not lf.can_reach(dec_pc[0]['node'], m['node']) \
            and not other_pc
        ex.check(lf, okd, 'zero-based-output', sel,
                 'the permutation returned by genmmd_ is 1-based: all n entries of perm_c must be decremented exactly once after the call (and perm_c written nowhere else)',
                 (dec_pc or [m])[0]['line'])
    return len(leaves)


def colamd_rules(chk, cid, prog, cfgname):
    f = prog.func('get_colamd')
    if f is None:
        from ..run import AnalysisBroken
        raise AnalysisBroken('get_colamd not found')
    chk.saw(unit=f.unit, func=f.unit + ':' + f.name)
    r7_perm.check_inverse(chk, cid, f, 'perm_c', 'p', cfgname)
    # private copies of the pattern with the right extents:  p[i] = colptr[i] for i <= n ; A[i] = rowind[i] for i < nnz
    copies = {}
    for lp in f.body.walk():
        if lp.k == 'For':
            cond = strip(lp.c[1])
            body = strip(lp.c[3])
            if body.k == 'Block' and len(body.c) == 1:
                body = strip(body.c[0])
            if body.k == 'Assign' and strip(body.c[0]).k == 'Index' and strip(body.c[1]).k == 'Index' and cond.k == 'Binary':
                src = strip(strip(body.c[1]).c[0])
                if src.k == 'Ref' and src.a.get('dk') == 'ParmVarDecl':
                    copies[src.a['name']] = '%s %s' % (cond.a['op'], canon(cond.c[1], ids=False))
    want = {'colptr': '<= n', 'rowind': '< nnz'}
    if copies == want:
        chk.ok(cid, 'get_colamd:private-copies', sample=str(copies))
    else:
        chk.violate(cid, 'get_colamd:private-copies', loc(f, f.body), f.name,
                    'COLAMD destroys its input: the n+1 column pointers and the nnz row indices must be copied into private arrays first (found %s, expected %s)'
                    % (copies, want), cfgname=cfgname)
    return 2


def downward_slot_rule(chk, cid, prog, cfgname):
    """COLAMD parks the columns it does not order (empty, dense, newly empty) at the end of the permutation: `n_col2` starts at n_col, one past
    the last slot, and every parked column receives the *decremented* value (`Col[c].shared2.order = --n_col2`), so that the slots
    n_col2..n_col-1 are each given out once and n_col2 ends as the number of columns left to order.  A post-decrement hands out slot n_col
    (outside the permutation) and gives one slot to two columns: perm_c is no longer a bijection - but only for matrices that have such a
    column, which small test matrices do not.  Every store of an order slot derived from the downward cursor must pre-decrement it."""
    from ..run import AnalysisBroken
    chk.clause(cid, 'COLAMD: order slots handed out from the top use the pre-decremented cursor')
    f = next((g for g in prog.all_funcs() if g.name == 'init_scoring' and g.unit.endswith('colamd.c')), None)
    if f is None:
        raise AnalysisBroken('init_scoring (colamd.c) not found')
    chk.saw(unit=f.unit, func=f.unit + ':' + f.name)
    # the downward cursor: a local initialised from the column count and decremented in the routine
    cursors = {}
    for x in f.body.walk():
        if x.k == 'Unary' and x.a['op'] in ('--', 'post--') and strip(x.c[0]).k == 'Ref':
            cursors[strip(x.c[0]).a.get('id')] = strip(x.c[0]).a.get('name')
    n = 0
    for x in f.body.walk():
        if x.k != 'Assign' or x.a['op'] != '=':
            continue
        lv = strip(x.c[0])
        if not (lv.k == 'Member' and lv.a.get('name') == 'order'):
            continue
        uses = [y for y in x.c[1].walk() if y.k == 'Ref' and y.a.get('id') in cursors]
        if not uses:
            continue
        n += 1
        r = strip(x.c[1])
        inst = 'init_scoring:order-slot-from-the-top@%d' % n
        prev_dec = False
        if r.k == 'Ref':
            for blk in f.body.walk():
                if blk.k == 'Block':
                    for i, st_ in enumerate(blk.c[1:], 1):
                        if st_ is x or strip(st_) is x:
                            pv = strip(blk.c[i - 1])
                            if pv.k == 'Unary' and pv.a['op'] == '--' and strip(pv.c[0]).k == 'Ref' and strip(pv.c[0]).a.get('id') == r.a.get('id'):
                                prev_dec = True
                            if pv.k == 'Assign' and pv.a['op'] == '-=' and strip(pv.c[0]).k == 'Ref' and strip(pv.c[0]).a.get('id') == r.a.get('id') \
                                    and (strip(pv.c[1]).a.get('value') == 1):
                                prev_dec = True
        if (r.k == 'Unary' and r.a['op'] == '--' and not r.a.get('postfix')) or prev_dec:
            chk.ok(cid, inst, sample=pretty(x)[:60])
        else:
            chk.violate(cid, inst, loc(f, x), f.name,
                        '`%s` stores the cursor %s without pre-decrementing it: the cursor starts one past the last slot, so this column gets a slot that '
                        'is outside the permutation or already taken, and perm_c is not a bijection for a matrix that has such a column'
                        % (pretty(x)[:60], cursors[uses[0].a.get('id')]), cfgname=cfgname)
    if n < 3:
        raise AnalysisBroken('%s: %d order-slot stores found in init_scoring, expected 3' % (cid, n))
    return n


def sentinel_bound_rule(chk, cid, prog, cfgname, funcs=('sp_coletree',)):
    """An array that records "the smallest v seen so far" is primed with a sentinel that no real v can reach: the bound of the loop that produces
    the v's.  `firstcol[row] = nc` primes the first-nonzero-column table with the column count; priming it with the row count instead is the
    same for m >= n, but for a wide matrix a row whose first entry lies beyond column m keeps the sentinel m - a real column - and the
    elimination tree gets an edge that is not in A'A.  For each local array: values stored from a loop variable v (`for (v = ..; v < B; ..)`)
    and a sentinel stored from a plain dimension variable D must satisfy D == B."""
    from ..run import AnalysisBroken
    chk.clause(cid, 'the sentinel that primes a running-minimum table is the bound of the values recorded in it')
    n = 0
    for fname in funcs:
        f = next((g for g in prog.all_funcs() if g.name == fname), None)
        if f is None:
            raise AnalysisBroken('%s not found' % fname)
        chk.saw(unit=f.unit, func=f.unit + ':' + f.name)
        bound_of = {}       # loop variable id -> bound variable (id, name)
        dims = {}
        for x in f.body.walk():
            if x.k == 'For' and x.c[0] is not None and x.c[1] is not None:
                i0, c0 = strip(x.c[0]), strip(x.c[1])
                if i0.k == 'Assign' and strip(i0.c[0]).k == 'Ref' and c0.k == 'Binary' and c0.a['op'] == '<' and strip(c0.c[1]).k == 'Ref':
                    b = strip(c0.c[1])
                    bound_of[strip(i0.c[0]).a.get('id')] = (b.a.get('id'), b.a.get('name'))
                    dims[b.a.get('id')] = b.a.get('name')
        recorded, sentinel = {}, {}
        for x in f.body.walk():
            if x.k != 'Assign' or x.a['op'] != '=' or strip(x.c[0]).k != 'Index' or strip(strip(x.c[0]).c[0]).k != 'Ref':
                continue
            arr = strip(strip(x.c[0]).c[0])
            r = strip(x.c[1])
            if r.k == 'Ref' and r.a.get('id') in dims:
                sentinel.setdefault(arr.a.get('id'), []).append((x, r))
                continue
            leaves = [strip(r.c[1]), strip(r.c[2])] if r.k == 'Cond' else [r]      # MIN(old, v) after macro expansion, or plain v
            for y in leaves:
                if y.k == 'Ref' and y.a.get('id') in bound_of:
                    recorded.setdefault(arr.a.get('id'), []).append((x, y))
        for aid in sorted(set(recorded) & set(sentinel)):
            for (sx, d) in sentinel[aid]:
                n += 1
                bnds = {bound_of[y.a.get('id')] for (_, y) in recorded[aid]}
                nm = strip(strip(sx.c[0]).c[0]).a.get('name')
                inst = '%s:%s:sentinel-is-the-bound-of-what-is-recorded' % (fname, nm)
                if bnds == {(d.a.get('id'), d.a.get('name'))}:
                    chk.ok(cid, inst, sample='`%s`; recorded values run below %s' % (pretty(sx)[:40], d.a.get('name')))
                else:
                    chk.violate(cid, inst, loc(f, sx), fname,
                                '`%s` primes %s[] with %s, but the values recorded in it (`%s`) run below %s: when %s < %s a real value can equal the '
                                'sentinel and is taken for "nothing seen"' % (pretty(sx)[:40], nm, d.a.get('name'), pretty(recorded[aid][0][0])[:50],
                                                                               sorted(b[1] for b in bnds), d.a.get('name'), sorted(b[1] for b in bnds)[0]),
                                cfgname=cfgname)
    if n < 1:
        raise AnalysisBroken('%s: no primed running-minimum table found' % cid)
    return n


def view_header_rule(chk, cid, prog, cfgname):
    """sp_preorder builds AC, the view of A with permuted columns: same rows, same columns, same data and matrix type.  Every header field that is
    copied `AC->F = A->G` must have F == G, and nrow / ncol / Dtype / Mtype must all be copied.  (?gstrf takes m from AC->nrow; with the row count
    of a rectangular matrix replaced the view no longer lists A's columns.)"""
    from ..run import AnalysisBroken
    f = prog.func('sp_preorder')
    if f is None:
        raise AnalysisBroken('sp_preorder not found')
    chk.saw(unit=f.unit, func=f.unit + ':' + f.name)
    ids = {nm: i for (nm, i, t) in f.params}
    if 'A' not in ids or 'AC' not in ids:
        raise AnalysisBroken('sp_preorder: parameters A / AC not found')
    seen = {}
    for x in f.body.walk():
        if x.k != 'Assign' or x.a['op'] != '=':
            continue
        l, r = strip(x.c[0]), strip(x.c[1])
        if l.k == 'Member' and strip(l.c[0]).k == 'Ref' and strip(l.c[0]).a.get('id') == ids['AC'] and l.a.get('name') in ('nrow', 'ncol', 'Dtype', 'Mtype'):
            seen[l.a['name']] = (x, r)
    n = 0
    for fld in ('nrow', 'ncol', 'Dtype', 'Mtype'):
        n += 1
        inst = 'sp_preorder:AC->%s' % fld
        if fld not in seen:
            chk.violate(cid, inst, loc(f, f.body), f.name, 'the permuted-column view never receives its `%s`' % fld, cfgname=cfgname)
            continue
        x, r = seen[fld]
        if r.k == 'Ref':      # a local that holds the field: follow its single definition
            defs = [y for y in f.body.walk() if (y.k == 'Assign' and y.a['op'] == '=' and strip(y.c[0]).k == 'Ref' and strip(y.c[0]).a.get('id') == r.a.get('id'))
                    or (y.k == 'Var' and y.c and y.a.get('id') == r.a.get('id'))]
            if len(defs) == 1:
                r = strip(defs[0].c[1] if defs[0].k == 'Assign' else defs[0].c[0])
        if r.k != 'Member' and fld in ('nrow', 'ncol'):
            raise AnalysisBroken('sp_preorder: `%s` is not a copy of a header field this rule can trace' % pretty(x))
        good = r.k == 'Member' and strip(r.c[0]).k == 'Ref' and strip(r.c[0]).a.get('id') == ids['A'] and r.a.get('name') == fld
        if good:
            chk.ok(cid, inst, sample=pretty(x))
        else:
            chk.violate(cid, inst, loc(f, x), f.name,
                        '`%s`: the view of A with permuted columns has the %s of A itself (a rectangular A otherwise yields a view whose columns hold row indices outside it, '
                        'and ?gstrf sizes its row arrays from it)' % (pretty(x), fld), cfgname=cfgname)
    return n


def mmd_weight_rule(chk, cid, prog, cfgname):
    """Multiple minimum degree keeps, per supernode representative, the number of original nodes it stands for (qsize[]); the final numbering
    (slu_mmdnum_) recognises an absorbed node by qsize == 0 and gives it the position of its representative's group.  Conservation: wherever
    a node's weight is added to another (`qsize[X] += qsize[Y]`), the same block sets `qsize[Y] = 0`.  Without it the absorbed node is numbered as
    a root of its own and perm_c repeats a label."""
    from ..run import AnalysisBroken
    n = 0
    for f in prog.all_funcs():
        if f.unit != 'SRC/mmd.c':
            continue
        for blk in f.body.walk():
            if blk.k != 'Block':
                continue
            sts = blk.c
            for i, s in enumerate(sts):
                if not (s.k == 'Assign' and s.a['op'] == '+=' and strip(s.c[0]).k == 'Index' and strip(s.c[1]).k == 'Index'):
                    continue
                la, ra = strip(s.c[0]), strip(s.c[1])
                if 'qsize' not in canon(la.c[0], ids=False) or 'qsize' not in canon(ra.c[0], ids=False):
                    continue
                chk.saw(unit=f.unit, func=f.unit + ':' + f.name)
                n += 1
                y = canon(ra.c[1], ids=False)
                inst = '%s:absorb(%s<-%s)' % (f.name, canon(la.c[1], ids=False), y)
                zero = [t for t in sts[i + 1:] if t.k == 'Assign' and t.a['op'] == '=' and strip(t.c[0]).k == 'Index' and 'qsize' in canon(strip(t.c[0]).c[0], ids=False)
                        and canon(strip(t.c[0]).c[1], ids=False) == y and const_value(t.c[1]) == 0]
                x_c = canon(la.c[1], ids=False)
                link = [t for t in sts[i + 1:] if t.k == 'Assign' and t.a['op'] == '=' and strip(t.c[0]).k == 'Index' and 'dforw' in canon(strip(t.c[0]).c[0], ids=False)
                        and canon(strip(t.c[0]).c[1], ids=False) == y]
                n += 1
                inst2 = '%s:absorb(%s<-%s):link' % (f.name, x_c, y)
                if not link:
                    chk.violate(cid, inst2, loc(f, s), f.name, 'the absorbed node %s gets no forward link to its absorber (dforw[%s] = -%s): the final numbering cannot find the group it belongs to' % (y, y, x_c), cfgname=cfgname)
                else:
                    rv = strip(link[0].c[1])
                    tgt = canon(strip(rv.c[0]), ids=False) if rv.k == 'Unary' and rv.a['op'] == '-' else None
                    if tgt == x_c:
                        chk.ok(cid, inst2, sample='`%s`' % pretty(link[0]))
                    else:
                        chk.violate(cid, inst2, loc(f, link[0]), f.name,
                                    '`%s`: the weight of %s went to %s, so its forward link must be -%s; slu_mmdnum_ follows these links to the representative whose '
                                    'position the node shares, and a link to another node numbers it into the wrong group (perm_c repeats or skips a label)' % (pretty(link[0]), y, x_c, x_c),
                                    cfgname=cfgname)
                if zero:
                    chk.ok(cid, inst, sample='`%s` then `%s`' % (pretty(s), pretty(zero[0])))
                else:
                    chk.violate(cid, inst, loc(f, s), f.name,
                                '`%s` moves the weight of %s to its absorber, but qsize[%s] is not set to 0 afterwards: the weights no longer sum to the number of '
                                'columns and the final numbering, which recognises absorbed nodes by a zero weight, labels the node as a root - perm_c repeats a value' % (pretty(s), y, y),
                                cfgname=cfgname)
    if n < 4:
        raise AnalysisBroken('mmd_weight_rule: %d absorption obligations found in mmd.c, floor 4' % n)
    return n
