"""C16: structural rules on the matrix file readers."""
import re
from ..facts import strip, callee_name, const_value, loc, root_ref, canon
from ..ir import pretty
from .extent import alloc_count

READER_UNITS_PAT = re.compile(r'(SRC/[sdcz]read(hb|rb|MM|triple)\.c|EXAMPLE/dreadtriple_noheader\.c)$')


def array_size(t):
    m = re.search(r'\[(\d+)\]', t or '')
    return int(m.group(1)) if m else None


def run(chk, prefix, prog, cfgname):
    ca = chk.clause(prefix + '.base', 'index-base conversion of parsed indices')
    cb = chk.clause(prefix + '.buf', 'line/field buffers are large enough')
    cc = chk.clause(prefix + '.fmt', 'scanf conversions agree with the pointee types')
    cd = chk.clause(prefix + '.ext', 'co-indexed arrays have equal extents')
    nunits = 0
    for u in prog.units:
        if not READER_UNITS_PAT.search(u.rel):
            continue
        nunits += 1
        for f in u.funcs:
            chk.saw(unit=u.rel, func=u.rel + ':' + f.name)
            locs = {vid: v for vid, v in f.locals.items()}
            # ---- (buf) fgets / fscanf %Nc / constant subscript stores
            for x in f.body.walk():
                if x.k == 'Call' and callee_name(x) == 'fgets' and len(x.c) > 2:
                    b = strip(x.c[1])
                    if b.k == 'Ref' and b.a.get('id') in locs:
                        K = array_size(locs[b.a['id']].t)
                        N = const_value(x.c[2])
                        if K is not None and N is not None:
                            inst = '%s:%s:fgets(%s)' % (u.rel, f.name, b.a['name'])
                            if N <= K:
                                chk.ok(prefix + '.buf', inst, sample='%d <= %d' % (N, K))
                            else:
                                chk.violate(prefix + '.buf', inst, loc(f, x), f.name, 'fgets may store %d bytes into `%s`, which has %d' % (N, b.a['name'], K), cfgname=cfgname)
                if x.k == 'Call' and callee_name(x) in ('fscanf', 'sscanf', 'scanf'):
                    fi = 1 if callee_name(x) == 'scanf' else 2
                    if len(x.c) > fi and strip(x.c[fi]).k == 'Str':
                        fmt = strip(x.c[fi]).a['value'].strip('"')
                        convs = re.findall(r'%(\*?)(\d*)(hh|h|ll|l|L)?([diuxfegcs])', fmt)
                        args = x.c[fi + 1:]
                        ai = 0
                        for (star, width, lm, cv) in convs:
                            if star:
                                continue
                            if ai >= len(args):
                                break
                            a = strip(args[ai])
                            ai += 1
                            if cv == 'c' and width and a.k == 'Ref' and a.a.get('id') in locs:
                                K = array_size(locs[a.a['id']].t)
                                if K is not None:
                                    inst = '%s:%s:%%%sc->%s' % (u.rel, f.name, width, a.a['name'])
                                    if int(width) <= K:
                                        chk.ok(prefix + '.buf', inst, sample='%s <= %d' % (width, K))
                                    else:
                                        chk.violate(prefix + '.buf', inst, loc(f, x), f.name, '%%%sc stores %s bytes into `%s`, which has %d' % (width, width, a.a['name'], K), cfgname=cfgname)
                            # (fmt) conversion vs pointee type
                            t = (a.a.get('dt') or a.t or '')
                            pt = t.replace('*', '').strip() if '*' in t else None
                            if a.k == 'Unary' and a.a['op'] == '&':
                                pt = (strip(a.c[0]).a.get('dt') or strip(a.c[0]).t or '').strip()
                            for _ in range(3):
                                if pt and pt in u.typedefs and u.typedefs[pt][0] and u.typedefs[pt][0] != pt:
                                    pt = u.typedefs[pt][0]
                            if pt and cv in 'dfeg' and not (cv == 'd' and 'idx64' in cfgname):
                                want = None
                                if cv == 'd':
                                    want = {'': {'int'}, 'l': {'long'}, 'll': {'long long'}}.get(lm or '', None)
                                else:
                                    want = {'': {'float'}, 'l': {'double'}}.get(lm or '', None)
                                if want is not None:
                                    inst = '%s:%s:%%%s%s->%s' % (u.rel, f.name, lm or '', cv, pretty(a)[:24])
                                    if pt in want:
                                        chk.ok(prefix + '.fmt', inst)
                                    else:
                                        chk.violate(prefix + '.fmt', inst, loc(f, x), f.name,
                                                    'conversion %%%s%s stores a %s but the argument `%s` points to %s' % (lm or '', cv, '/'.join(sorted(want)), pretty(a)[:40], pt),
                                                    cfgname=cfgname)
                if x.k == 'Assign' and strip(x.c[0]).k == 'Index':
                    lv = strip(x.c[0])
                    b = strip(lv.c[0])
                    c = const_value(lv.c[1])
                    if b.k == 'Ref' and b.a.get('id') in locs and c is not None:
                        K = array_size(locs[b.a['id']].t)
                        if K is not None:
                            inst = '%s:%s:%s[%d]' % (u.rel, f.name, b.a['name'], c)
                            if 0 <= c < K:
                                chk.ok(prefix + '.buf', inst, nontrivial=False)
                            else:
                                chk.violate(prefix + '.buf', inst, loc(f, x), f.name, 'store at constant subscript %d of `%s[%d]`' % (c, b.a['name'], K), cfgname=cfgname)
            # ---- (base) ReadVector: parsed index minus one
            if f.name == 'ReadVector':
                dest = f.params[2][1] if len(f.params) > 2 else None
                st = [x for x in f.body.walk() if x.k == 'Assign' and root_ref(x.c[0]) is not None and root_ref(x.c[0]).a.get('id') == dest and strip(x.c[0]).k != 'Ref']
                ok = len(st) == 1 and strip(st[0].c[1]).k == 'Binary' and strip(st[0].c[1]).a['op'] == '-' and const_value(strip(st[0].c[1]).c[1]) == 1
                inst = '%s:ReadVector:index-minus-one' % u.rel
                if ok:
                    chk.ok(prefix + '.base', inst, sample=pretty(st[0]))
                else:
                    chk.violate(prefix + '.base', inst, loc(f, (st or [f.body])[0]), f.name,
                                'Harwell/Rutherford-Boeing indices are 1-based: each parsed index must be stored as value - 1 (found %s)' % [pretty(x)[:50] for x in st], cfgname=cfgname)
            # ---- (base) coordinate readers: one guarded decrement per scanned index array
            scans = [x for x in f.body.walk() if x.k == 'Call' and callee_name(x) in ('fscanf', 'scanf') and
                     sum(1 for a in x.c[1:] if strip(a).k == 'Unary' and strip(a).a['op'] == '&' and strip(strip(a).c[0]).k == 'Index') >= 3]
            if scans:
                idxarrs = []
                for a in scans[0].c[1:]:
                    a = strip(a)
                    if a.k == 'Unary' and a.a['op'] == '&' and strip(a.c[0]).k == 'Index':
                        b = strip(strip(a.c[0]).c[0])
                        if b.k == 'Ref' and 'int' in (b.t or ''):
                            idxarrs.append(b)
                for b in idxarrs:
                    decs = []

                    def walk(n, guards):
                        if n.k == 'If':
                            walk(n.c[1], guards + [(n.c[0], True)])
                            if len(n.c) > 2:
                                walk(n.c[2], guards + [(n.c[0], False)])
                            return
                        if n.k == 'Unary' and n.a['op'] == '--' and strip(n.c[0]).k == 'Index' and strip(strip(n.c[0]).c[0]).k == 'Ref' \
                                and strip(strip(n.c[0]).c[0]).a['id'] == b.a['id']:
                            decs.append((n, list(guards)))
                        for c in n.c:
                            walk(c, guards)
                    walk(f.body, [])
                    inst = '%s:%s:%s-to-zero-based' % (u.rel, f.name, b.a['name'])
                    ok = len(decs) == 1 and len(decs[0][1]) >= 1
                    if ok:
                        g, pol = decs[0][1][-1]
                        g = strip(g)
                        ok = (g.k == 'Unary' and g.a['op'] == '!' and pol) or (g.k == 'Binary' and g.a['op'] == '==' and const_value(g.c[1]) == 0 and pol)
                    if ok:
                        chk.ok(prefix + '.base', inst, sample='%s under %s' % (pretty(decs[0][0]), pretty(decs[0][1][-1][0])))
                    else:
                        chk.violate(prefix + '.base', inst, loc(f, (decs or [(f.body,)])[0][0]), f.name,
                                    'coordinate files may be 0- or 1-based: `%s[]` must be decremented exactly once per entry, only when the file is not zero-based '
                                    '(found %d decrement(s))' % (b.a['name'], len(decs)), cfgname=cfgname)
            # ---- (ext) co-indexed local arrays
            allocs = {}
            for x in f.body.walk():
                tgt = rhs = None
                if x.k == 'Assign' and x.a['op'] == '=' and strip(x.c[0]).k == 'Ref':
                    tgt, rhs = strip(x.c[0]).a['id'], strip(x.c[1])
                elif x.k == 'Var' and x.c:
                    tgt, rhs = x.a['id'], strip(x.c[0])
                if rhs is not None:
                    if rhs.k == 'Assign':
                        rhs = strip(rhs.c[1])
                    if rhs.k == 'Call':
                        c = alloc_count(rhs)
                        if c is not None:
                            allocs.setdefault(tgt, set()).add(canon(c, ids=False))
            if len(allocs) >= 2:
                groups = {}
                for x in f.body.walk():
                    if x.k == 'Call' and callee_name(x) in ('fscanf', 'scanf'):
                        by = {}
                        for a in x.c[1:]:
                            a = strip(a)
                            if a.k == 'Unary' and a.a['op'] == '&' and strip(a.c[0]).k == 'Index':
                                el = strip(a.c[0])
                                b, i = strip(el.c[0]), strip(el.c[1])
                                if b.k == 'Ref' and b.a['id'] in allocs and i.k == 'Ref':
                                    by.setdefault(i.a['id'], set()).add(b.a['id'])
                        for iv, arrs in by.items():
                            if len(arrs) >= 2:
                                groups[frozenset(arrs)] = x
                for arrs, node in groups.items():
                    exts = {vid: allocs[vid] for vid in arrs}
                    names = {vid: f.locals[vid].a['name'] for vid in arrs if vid in f.locals}
                    inst = '%s:%s:{%s}' % (u.rel, f.name, ','.join(sorted(names.values())))
                    vals = set()
                    for s_ in exts.values():
                        vals |= s_
                    if len(vals) == 1:
                        chk.ok(prefix + '.ext', inst, sample='all %s' % sorted(vals))
                    else:
                        chk.violate(prefix + '.ext', inst, loc(f, node), f.name,
                                    'arrays %s are filled side by side with one subscript but are allocated with different extents %s'
                                    % (sorted(names.values()), {names[v]: sorted(e) for v, e in exts.items() if v in names}), cfgname=cfgname)
    return nunits


# ---------------------------------------------------------------- Matrix Market header keyword, symmetric expansion capacity
def _strcmp_lits(f):
    """[(variable name, literal, node)] for every strcmp(var, "lit") in f"""
    out = []
    for x in f.body.walk():
        if x.k == 'Call' and callee_name(x) == 'strcmp' and len(x.c) == 3:
            a, b = strip(x.c[1]), strip(x.c[2])
            if a.k == 'Ref' and b.k == 'Str':
                out.append((a.a['name'], b.a['value'].strip('"'), x))
    return out


def mm_header_rule(chk, cid, prog, cfgname):
    """?readMM: the arithmetic keyword that lets a file through must be the one of the routine's own data type
    (real for s/d, complex for c/z): the accepting test is `if (strcmp(arith, K)) { ...every branch exits... }`."""
    from ..cfg import NORETURN
    chk.clause(cid, 'Matrix Market readers accept the arithmetic keyword of their own data type')
    n = 0
    for p in 'sdcz':
        f = prog.func(p + 'readMM')
        if f is None:
            from ..run import AnalysisBroken
            raise AnalysisBroken('%sreadMM not found' % p)
        want = 'real' if p in 'sd' else 'complex'
        acc = None
        for x in f.body.walk():
            if x.k == 'If':
                c = strip(x.c[0])
                if c.k == 'Call' and callee_name(c) == 'strcmp' and strip(c.c[1]).k == 'Ref' and strip(c.c[1]).a['name'] == 'arith' and strip(c.c[2]).k == 'Str':
                    # rejecting block: no path through it falls out (every leaf statement list ends in exit)
                    if _all_paths_exit(x.c[1]) and acc is None:
                        acc = (strip(c.c[2]).a['value'].strip('"'), x)
        n += 1
        inst = '%sreadMM:accepted-arithmetic' % p
        if acc is not None and acc[0] == want:
            chk.ok(cid, inst, sample='files are rejected unless arith == "%s"' % acc[0])
        else:
            chk.violate(cid, inst, loc(f, acc[1] if acc else f.body), f.name,
                        'a %s reader must let through exactly the files whose header says "%s"; the accepting test is on "%s"'
                        % ({'s': 'single-precision real', 'd': 'double-precision real', 'c': 'single-precision complex', 'z': 'double-precision complex'}[p],
                           want, acc[0] if acc else 'nothing'), cfgname=cfgname)
    return n


def _all_paths_exit(s):
    s = strip(s) if s.k not in ('Block', 'If') else s
    if s.k == 'Block':
        return bool(s.c) and _all_paths_exit(s.c[-1])
    if s.k == 'If':
        return len(s.c) > 2 and _all_paths_exit(s.c[1]) and _all_paths_exit(s.c[2])
    if s.k == 'Call':
        return callee_name(s) in ('exit', 'abort', 'superlu_abort_and_exit')
    if s.k == 'Return':
        return True
    return False


def _defs_of(f, vid):
    out = []
    for x in f.body.walk():
        if x.k == 'Assign' and x.a['op'] == '=' and strip(x.c[0]).k == 'Ref' and strip(x.c[0]).a.get('id') == vid:
            out.append(x)
        if x.k == 'Var' and x.a.get('id') == vid and x.c:
            out.append(x)
    return out


def _terms(e, sign=1):
    """flatten a +/- expression into [(sign, node)]"""
    e = strip(e)
    if e.k == 'Binary' and e.a['op'] in ('+', '-'):
        return _terms(e.c[0], sign) + _terms(e.c[1], sign if e.a['op'] == '+' else -sign)
    return [(sign, e)]


def _is_twice_count(e, cnt_texts):
    e = strip(e)
    if e.k == 'Binary' and e.a['op'] == '*':
        a, b = strip(e.c[0]), strip(e.c[1])
        if const_value(a) == 2 and canon(b, ids=False) in cnt_texts:
            return True
        if const_value(b) == 2 and canon(a, ids=False) in cnt_texts:
            return True
    return False


def _counts_diagonal(f, vid):
    """vid is only ever set to 0 and incremented under an equality test of a row index against a column index inside a loop"""
    incs = [x for x in f.body.walk() if x.k == 'Unary' and x.a['op'] in ('++',) and strip(x.c[0]).k == 'Ref' and strip(x.c[0]).a.get('id') == vid]
    defs = _defs_of(f, vid)
    if not incs or any(const_value(d.c[1] if d.k == 'Assign' else d.c[0]) != 0 for d in defs):
        return False
    others = [x for x in f.body.walk() if x.k == 'Assign' and x.a['op'] != '=' and strip(x.c[0]).k == 'Ref' and strip(x.c[0]).a.get('id') == vid]
    if others:
        return False
    guarded = 0
    for x in f.body.walk():
        if x.k == 'If' and strip(x.c[0]).k == 'Binary' and strip(x.c[0]).a['op'] == '==' and len(x.c) == 2:
            if any(y is i for y in x.c[1].walk() for i in incs):
                guarded += 1
    return guarded == len(incs)


def expansion_capacity_rule(chk, cid, prog, cfgname):
    """Symmetric storage holds one triangle; the full matrix has 2*nnz - d entries where d is the number of stored diagonal entries (0 <= d <= n,
    known only from the data).  The arrays that receive the expansion are written without a bound test, so their extent must be 2*nnz minus a
    *counted* number of diagonal entries, or the upper bound 2*nnz - never a closed form such as 2*nnz - n."""
    chk.clause(cid, 'arrays receiving the symmetric expansion are large enough whatever part of the diagonal is stored')
    n = 0
    targets = []
    for u in prog.units:
        if not READER_UNITS_PAT.search(u.rel):
            continue
        for f in u.funcs:
            if f.name == 'FormFullA':
                targets.append((u, f, 'new_nnz', {'(*nonz)', 'nonz[0]'}))
            elif f.name.endswith('readMM'):
                targets.append((u, f, 'new_nonz', {'(*nonz)', 'nonz[0]'}))
    for (u, f, vname, cnt) in targets:
        chk.saw(unit=u.rel, func=u.rel + ':' + f.name)
        vid = next((k for k, v in f.locals.items() if v.a.get('name') == vname), None)
        inst = '%s:%s:expansion-extent' % (u.rel, f.name)
        n += 1
        if vid is None:
            chk.violate(cid, inst, loc(f, f.body), f.name, 'cannot find the extent variable `%s` of the expanded arrays' % vname, cfgname=cfgname)
            continue
        bad = None
        sample = ''
        nexp = 0
        for d in _defs_of(f, vid):
            rhs = d.c[1] if d.k == 'Assign' else d.c[0]
            ts = _terms(rhs)
            twice = [t for (s, t) in ts if s > 0 and _is_twice_count(t, cnt)]
            if not twice:
                continue        # the non-symmetric definition (new_nonz = *nonz)
            nexp += 1
            for (s, t) in ts:
                if any(t is w for w in twice):
                    continue
                if s > 0:
                    continue
                # a subtracted term: must be a counted number of diagonal entries
                if t.k == 'Ref' and t.a.get('id') and _counts_diagonal(f, t.a['id']):
                    continue
                if const_value(t) == 0:
                    continue
                bad = (d, t)
            sample = pretty(rhs)[:60]
        if nexp == 0:
            chk.violate(cid, inst, loc(f, f.body), f.name, 'no definition of `%s` of the form 2*nnz - ... found' % vname, cfgname=cfgname)
        elif bad is not None:
            chk.violate(cid, inst, loc(f, bad[0]), f.name,
                        'the expanded arrays are sized 2*nnz minus `%s`, which is not a count of the diagonal entries actually stored: a symmetric file with '
                        'fewer stored diagonal entries overruns them (and the reported nonzero count is wrong)' % pretty(bad[1])[:40], cfgname=cfgname)
        else:
            chk.ok(cid, inst, sample=sample)
    if n < 12:
        from ..run import AnalysisBroken
        raise AnalysisBroken('expansion_capacity_rule: %d sites, expected 12' % n)
    return n


def field_slice_rule(chk, cid, prog, cfgname):
    """ReadVector / ?ReadValues cut each line into `perline` fields of `persize` characters.  Everything done to field j - saving and restoring the
    character behind it, rewriting a Fortran D exponent, the atoi/atof conversion - must address the slice of field j: inside the per-field
    loop every subscript of the line buffer has to depend on the field counter (directly or through a local computed from it)."""
    chk.clause(cid, 'per-field accesses to the line buffer address the slice of the current field')
    n = 0
    for u in prog.units:
        if not re.search(r'SRC/[sdcz]read(hb|rb)\.c$', u.rel):
            continue
        for f in u.funcs:
            if not (f.name == 'ReadVector' or f.name.endswith('ReadValues')):
                continue
            chk.saw(unit=u.rel, func=u.rel + ':' + f.name)
            for lp in f.body.walk():
                if lp.k != 'For':
                    continue
                cond = strip(lp.c[1])
                if 'perline' not in canon(cond, ids=False):
                    continue
                init = strip(lp.c[0])
                if not (init.k == 'Assign' and strip(init.c[0]).k == 'Ref'):
                    continue
                jv = strip(init.c[0]).a['id']
                dep = {jv}
                changed = True
                while changed:
                    changed = False
                    for x in lp.c[3].walk():
                        if x.k == 'Assign' and x.a['op'] == '=' and strip(x.c[0]).k == 'Ref' and strip(x.c[0]).a.get('id') not in dep:
                            if any(y.k == 'Ref' and y.a.get('id') in dep for y in x.c[1].walk()):
                                # only locals defined once inside the loop body count (s = j*persize)
                                dep.add(strip(x.c[0]).a['id'])
                                changed = True
                for x in lp.c[3].walk():
                    if x.k == 'Index' and strip(x.c[0]).k == 'Ref' and strip(x.c[0]).a['name'] == 'buf':
                        n += 1
                        inst = '%s:%s:slice@%s' % (u.rel, f.name, pretty(x)[:28])
                        if any(y.k == 'Ref' and y.a.get('id') in dep for y in x.c[1].walk()):
                            chk.ok(cid, inst)
                        else:
                            chk.violate(cid, inst, loc(f, x), f.name,
                                        '`%s` inside the per-field loop does not depend on the field counter: it addresses the same characters for every '
                                        'field of the line instead of the slice of field j' % pretty(x)[:40], cfgname=cfgname)
    if n < 8 * 8:
        from ..run import AnalysisBroken
        raise AnalysisBroken('field_slice_rule: %d buffer accesses, floor 64' % n)
    return n


def terminator_rule(chk, cid, prog, cfgname):
    """A header field is read with fscanf("%Nc", buf), which does not terminate the string, and then converted with atoi / atof / sscanf(buf, ...).
    The conversion must be dominated by a store `buf[N] = 0` (the readers write it once and rely on it for the following fields of the same width):
    without it the conversion runs on into whatever the buffer held before (e.g. the title line)."""
    chk.clause(cid, 'fixed-width header fields are terminated before they are converted')
    n = 0
    for u in prog.units:
        if not READER_UNITS_PAT.search(u.rel):
            continue
        for f in u.funcs:
            locs = {vid: v for vid, v in f.locals.items() if array_size(v.t) is not None and 'char' in (v.t or '')}
            if not locs:
                continue
            cfg = prog.cfg(f)
            dom = cfg.dominators()
            node_of = {}
            for cn in cfg.nodes:
                if cn.ast is not None and cn.kind in ('stmt', 'cond', 'return', 'switch'):
                    for x in cn.ast.walk():
                        node_of.setdefault(id(x), cn.id)
            reads = []      # (node, buf id, width, call)
            terms = []      # (node, buf id, index)
            uses = []       # (node, buf id, call)
            for x in f.body.walk():
                if x.k == 'Call' and callee_name(x) == 'fscanf' and len(x.c) > 3 and strip(x.c[2]).k == 'Str':
                    m = re.fullmatch(r'%(\d+)c', strip(x.c[2]).a['value'].strip('"'))
                    b = strip(x.c[3])
                    if m and b.k == 'Ref' and b.a.get('id') in locs:
                        reads.append((node_of.get(id(x)), b.a['id'], int(m.group(1)), x))
                if x.k == 'Assign' and x.a['op'] == '=' and strip(x.c[0]).k == 'Index' and const_value(x.c[1]) == 0:
                    b = strip(strip(x.c[0]).c[0])
                    if b.k == 'Ref' and b.a.get('id') in locs and const_value(strip(x.c[0]).c[1]) is not None:
                        terms.append((node_of.get(id(x)), b.a['id'], const_value(strip(x.c[0]).c[1])))
                if x.k == 'Call' and callee_name(x) in ('atoi', 'atof', 'atol', 'strtol', 'strtod', 'sscanf') and len(x.c) > 1:
                    b = strip(x.c[1])
                    if b.k == 'Ref' and b.a.get('id') in locs:
                        uses.append((node_of.get(id(x)), b.a['id'], x))
            # a terminator inside a counting loop that runs at least once (for (i = 0; i < 5; i++) { ...; buf[14] = 0; ... }) holds after the loop:
            # it is represented by the loop's condition node
            for lp in f.body.walk():
                if lp.k != 'For':
                    continue
                init, cond = strip(lp.c[0]), strip(lp.c[1])
                if init.k == 'Assign' and const_value(init.c[1]) is not None and cond.k == 'Binary' and cond.a['op'] in ('<', '<=') \
                        and const_value(cond.c[1]) is not None and const_value(init.c[1]) < const_value(cond.c[1]) + (1 if cond.a['op'] == '<=' else 0):
                    body = lp.c[3]
                    stmts = body.c if body.k == 'Block' else [body]
                    for st in stmts:
                        s0 = strip(st)
                        if s0.k == 'Assign' and s0.a['op'] == '=' and strip(s0.c[0]).k == 'Index' and const_value(s0.c[1]) == 0:
                            b = strip(strip(s0.c[0]).c[0])
                            if b.k == 'Ref' and b.a.get('id') in locs and const_value(strip(s0.c[0]).c[1]) is not None:
                                hn = None
                                for y in lp.c[1].walk():
                                    if id(y) in node_of:
                                        hn = node_of[id(y)]
                                        break
                                terms.append((hn, b.a['id'], const_value(strip(s0.c[0]).c[1])))
            for (un, bid, call) in uses:
                # the field width: the %Nc read into this buffer that is closest before the use (in source order, same function)
                prev = [r for r in reads if r[1] == bid and r[3].line <= call.line]
                if not prev:
                    continue
                w = max(prev, key=lambda r: r[3].line)[2]
                n += 1
                chk.saw(unit=u.rel, func=u.rel + ':' + f.name)
                inst = '%s:%s:terminated:%s@%d' % (u.rel, f.name, locs[bid].a.get('name'), n)
                ok = any(t[1] == bid and t[2] == w and t[0] is not None and un is not None and t[0] in dom.get(un, set()) for t in terms)
                if ok:
                    chk.ok(cid, inst, sample='%s[%d] = 0 dominates %s' % (locs[bid].a.get('name'), w, pretty(call)[:40]))
                else:
                    chk.violate(cid, inst, loc(f, call), f.name,
                                '`%s` converts a %d-character field read with %%%dc, but no store `%s[%d] = 0` dominates it: the conversion reads on into stale '
                                'buffer contents' % (pretty(call)[:40], w, w, locs[bid].a.get('name'), w), cfgname=cfgname)
    return n


def scatter_alignment_rule(chk, cid, prog, cfgname):
    """Triplets (row[], col[], val[]) are scattered into column storage (asub[], a[]): the row index and the value of one entry must be taken from the
    same triplet and put into the same slot - in every block that stores into both arrays, `asub[K] = row[T]` and `a[K'] = val[T']` need K = K', T = T'."""
    chk.clause(cid, 'index and value of an entry are moved together')
    n = 0
    pairs = (('asub', 'a'), ('row', 'val'))
    for u in prog.units:
        if not READER_UNITS_PAT.search(u.rel):
            continue
        for f in u.funcs:
            for blk in f.body.walk():
                if blk.k != 'Block':
                    continue
                idx, val = [], []
                for st in blk.c:
                    s0 = strip(st)
                    if s0.k == 'Assign' and s0.a['op'] == '=' and strip(s0.c[0]).k == 'Index' and strip(s0.c[1]).k == 'Index':
                        d, s = strip(s0.c[0]), strip(s0.c[1])
                        dn, sn = strip(d.c[0]).a.get('name'), strip(s.c[0]).a.get('name')
                        if dn == 'asub' and sn == 'row':
                            idx.append((canon(d.c[1], ids=False), canon(s.c[1], ids=False), s0))
                        if dn == 'a' and sn == 'val':
                            val.append((canon(d.c[1], ids=False), canon(s.c[1], ids=False), s0))
                if not idx or not val:
                    continue
                n += 1
                chk.saw(unit=u.rel, func=u.rel + ':' + f.name)
                inst = '%s:%s:entry-moved-together@%d' % (u.rel, f.name, n)
                if {(a, b) for (a, b, _) in idx} == {(a, b) for (a, b, _) in val}:
                    chk.ok(cid, inst, sample='%s / %s' % (pretty(idx[0][2]), pretty(val[0][2])))
                else:
                    chk.violate(cid, inst, loc(f, val[0][2]), f.name,
                                '`%s` and `%s` do not move the same triplet into the same slot: the pattern stays right but values end up at other positions'
                                % (pretty(idx[0][2]), pretty(val[0][2])), cfgname=cfgname)
    return n


def scan_width_rule(chk, cid, prog, cfgname, units_prefix=('SRC/', 'EXAMPLE/', 'FORTRAN/')):
    """Every string conversion (%s, %[..]) of a scanf-family call stores into a fixed-size character array; without a field width the length of
    the token in the *file* decides how much is written.  Each such conversion must carry a width, and the width must leave room for the
    terminator in the array that receives it (width <= size - 1).  A Matrix Market comment line `%-----...` of 80 dashes is well-formed input."""
    import re
    from ..run import AnalysisBroken
    chk.clause(cid, 'string conversions of scanf-family calls are bounded by the size of the receiving array')
    n = 0
    SCAN = {'sscanf': 2, 'fscanf': 2, 'scanf': 1}
    for f in prog.all_funcs():
        if not f.unit.startswith(units_prefix):
            continue
        for call in f.body.walk():
            if call.k != 'Call' or callee_name(call) not in SCAN:
                continue
            args = call.c[1:]
            fi = SCAN[callee_name(call)] - 1
            fmt = strip(args[fi]) if len(args) > fi else None
            if fmt is None or fmt.k != 'Str':
                continue
            text = fmt.a.get('value') or ''
            text = text[1:-1] if text.startswith('"') else text
            k = fi + 1
            for m in re.finditer(r'%(\*?)(\d*)(hh|h|ll|l|L|q|j|z|t)?(\[\^?\]?[^\]]*\]|[a-zA-Z%])', text):
                star, width, _, conv = m.groups()
                if conv == '%':
                    continue
                if star:
                    continue
                arg = args[k] if k < len(args) else None
                k += 1
                if conv[0] not in ('s', '[') or arg is None:
                    continue
                n += 1
                chk.saw(unit=f.unit, func=f.unit + ':' + f.name)
                r = root_ref(arg)
                nm = r.a.get('name') if r is not None else pretty(arg)[:20]
                size = array_size(r.t) if r is not None else None
                inst = '%s:%s:%%%s->%s@%d' % (f.unit, f.name, conv[0], nm, n)
                if not width:
                    chk.violate(cid, '%s:unbounded-string-conversion:%s' % (f.name, nm), loc(f, call), f.name,
                                '`%s` stores a token of the input into `%s`%s with no field width: a longer token in the file (a comment line of dashes, a '
                                'long keyword) is written past the end of the array' % (pretty(call)[:70], nm, ' (%d bytes)' % size if size else ''),
                                cfgname=cfgname)
                elif size is not None and int(width) > size - 1:
                    chk.violate(cid, '%s:string-conversion-wider-than-array:%s' % (f.name, nm), loc(f, call), f.name,
                                'field width %s of `%s` does not leave room for the terminator in `%s` (%d bytes)' % (width, pretty(call)[:60], nm, size),
                                cfgname=cfgname)
                else:
                    chk.ok(cid, inst, sample='width %s, array of %s bytes' % (width, size if size is not None else '?'), nontrivial=size is not None)
    if n < 16:
        raise AnalysisBroken('%s: only %d string conversions found in scanf-family calls (floor 16)' % (cid, n))
    return n


def precision_purity_rule(chk, cid, prog, cfgname):
    """The double-precision readers (dread*, zread*) must carry every value of the file in double precision from the conversion to the store:
    a `float` temporary (the single-precision reader is the template the others are copied from) rounds the value to 24 bits on the way -
    the matrix is still well-formed and every residual test passes, but it is not the matrix in the file.  No local or parameter of a
    d/z reader unit may have a single-precision floating type."""
    from ..run import AnalysisBroken
    chk.clause(cid, 'double-precision readers hold file values in double precision only')
    n = 0
    for f in prog.all_funcs():
        m = re.match(r'^SRC/([dz])read(hb|rb|MM|triple)\.c$', f.unit)
        if not m:
            continue
        chk.saw(unit=f.unit, func=f.unit + ':' + f.name)
        decls = [(v.a.get('name'), v.t or '', v) for v in f.locals.values()] + [(nm, t or '', None) for (nm, i, t) in f.params]
        fl = [(nm, t, v) for (nm, t, v) in decls if re.search(r'\b(double|float|doublecomplex|singlecomplex)\b', t)]
        bad = [(nm, t, v) for (nm, t, v) in fl if re.search(r'\b(float|singlecomplex)\b', t)]
        n += len(fl)
        if not fl:
            continue
        inst = '%s:%s:double-only' % (f.unit, f.name)
        if not bad:
            chk.ok(cid, inst, sample='%d floating declarations, all double' % len(fl), nontrivial=True)
        else:
            nm, t, v = bad[0]
            chk.violate(cid, inst, '%s:%d' % (f.unit, (v.line if v is not None else f.line) or f.line), f.name,
                        '`%s %s` in the double-precision reader %s: a value parked in it is rounded to single precision before it is stored '
                        '(the returned matrix differs from the file in the 8th digit)' % (t, nm, f.name), cfgname=cfgname)
    if n < 12:
        raise AnalysisBroken('%s: only %d floating declarations found in the d/z reader units (floor 12)' % (cid, n))
    return n


HEADER_LAYOUT = {
    # fixed-column header records after the title line, as the two file formats define them (Duff, Grimes, Lewis: "Users' guide for the
    # Harwell-Boeing sparse matrix collection", 1992; "The Rutherford-Boeing sparse matrix collection", 1997)
    'readhb': [[14] * 5, [3, 11, 14, 14, 14, 14], [16, 16, 20, 20]],   # TOTCRD PTRCRD INDCRD VALCRD RHSCRD / MXTYPE pad NROW NCOL NNZERO NELTVL / PTRFMT INDFMT VALFMT RHSFMT
    'readrb': [[14] * 4, [3, 11, 14, 14, 14, 14], [16, 16, 20]],       # TOTCRD PTRCRD INDCRD VALCRD / MXTYPE pad NROW NCOL NNZERO NELTVL / PTRFMT INDFMT VALFMT
}


def header_layout_rule(chk, cid, prog, cfgname):
    """The Harwell-Boeing and Rutherford-Boeing headers are fixed-column records.  The readers consume them with `fscanf(fp, "%Nc", buf)` field
    by field and skip to the next record with ?DumpLine.  The sequence of widths consumed between two record ends must be the field list of the
    format: one field more runs over the end of a record that is not padded to 80 columns (and swallows the start of the next one), one less
    misplaces every later field.  Extracted from the statement order of the reader (constant-trip loops unrolled), compared with the format."""
    import re
    from ..run import AnalysisBroken
    n = 0

    def tokens(st, out):
        if st.k in ('Block',):
            for c in st.c:
                tokens(c, out)
            return
        if st.k == 'For':
            cond = strip(st.c[1])
            trip = const_value(cond.c[1]) if cond.k == 'Binary' and cond.a['op'] == '<' else None
            sub = []
            tokens(st.c[3], sub)
            if sub:
                if trip is None:
                    out.append(('?', st))
                else:
                    out.extend(sub * trip)
            return
        if st.k in ('If', 'While', 'Switch'):
            return          # optional records (the right-hand-side format line) are not part of the fixed header
        for x in st.walk():
            if x.k != 'Call':
                continue
            cn = callee_name(x) or ''
            if cn == 'fscanf':
                fmt = strip(x.c[2])
                text = (fmt.a.get('value') or '') if fmt.k == 'Str' else None
                if text is None:
                    out.append(('?', x))
                    continue
                for m in re.finditer(r'%(\*?)(\d*)(?:hh|h|ll|l|L)?([a-zA-Z\[])', text):
                    if m.group(3) == 'c' and m.group(2):
                        out.append((int(m.group(2)), x))
                    else:
                        out.append(('%' + m.group(1) + m.group(2) + m.group(3), x))     # not a fixed-column read
            elif cn.endswith('DumpLine'):
                out.append(('NL', x))
            elif cn == 'fgets':
                out.append(('LINE', x))

    for kind, layout in sorted(HEADER_LAYOUT.items()):
        for p in 'sdcz':
            f = prog.func(p + kind)
            if f is None:
                raise AnalysisBroken('%s%s not found' % (p, kind))
            chk.saw(unit=f.unit, func=f.unit + ':' + f.name)
            toks = []
            tokens(f.body, toks)
            lines, cur = [], []
            for (t, node) in toks:
                if t == 'NL':
                    lines.append(cur)
                    cur = []
                elif t == 'LINE':
                    if cur:
                        lines.append(cur)
                    cur = []
                else:
                    cur.append((t, node))
            lines = [l for l in lines if l]
            unk = [node for l in lines[:len(layout)] for (t, node) in l if t == '?']
            if unk:
                raise AnalysisBroken('%s: a header read at line %d has a width or trip count this rule cannot evaluate' % (f.name, unk[0].line))
            if len(lines) < len(layout):
                raise AnalysisBroken('%s: %d fixed-column header records recognised, the format has %d' % (f.name, len(lines), len(layout)))
            for k, want in enumerate(layout):
                n += 1
                got = [t for (t, node) in lines[k]]
                inst = '%s:header-record-%d' % (f.name, k + 2)
                free = [t for t in got if isinstance(t, str)]
                if got == want:
                    chk.ok(cid, inst, sample='widths %s' % got)
                elif free:
                    node = [nd for (t, nd) in lines[k] if isinstance(t, str)][0]
                    chk.violate(cid, inst, loc(f, node), f.name,
                                'header record %d is consumed with the conversion `%s`, which skips white space (line ends included) before it converts and stops at the first blank: '
                                'a field of the fixed-column record that is blank or completely filled shifts every later field; the format defines the columns %s'
                                % (k + 2, free[0], want), cfgname=cfgname)
                else:
                    chk.violate(cid, inst, loc(f, lines[k][min(len(want), len(got) - 1)][1] if got else f.body), f.name,
                                'header record %d is consumed as fields of width %s; the format defines %s: every later field of the record (or, past its end, '
                                'the first columns of the next record) is read from the wrong place' % (k + 2, got, want), cfgname=cfgname)
    return n
