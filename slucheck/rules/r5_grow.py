"""R5 `grow`: discipline of the four growable arrays lusup < ucol < lsub < usub (layout order inside a caller workspace).

(a) every call of ?LUMemXpand(jcol, next, T, &cap, Glu) sits under a capacity test against `cap`, and `cap` is the local copy of the
    capacity field that belongs to T; a post-check (the counter just incremented is compared) must be `next >= cap`, a pre-check (a future
    count is compared) must be `need > cap` in a *loop* that re-tests, because ?expand may grant less than asked for when space is short;
(b) after any call that may expand type T every local alias of a field of type >= T must be re-read from Glu before its next use
    (forward dataflow on the CFG; in a caller workspace growing T moves every array behind it);
(c) the result of every possibly-expanding call is tested and, when non-zero, returned at once.
"""
from ..facts import strip, callee_name, const_value, loc, root_ref, canon
from ..ir import pretty

ORDER = {'LUSUP': 0, 'UCOL': 1, 'LSUB': 2, 'USUB': 3}
FIELD_OF = {'LUSUP': 'lusup', 'UCOL': 'ucol', 'LSUB': 'lsub', 'USUB': 'usub'}
TYPE_OF_FIELD = {v: k for k, v in FIELD_OF.items()}
CAP_OF = {'LUSUP': {'nzlumax'}, 'UCOL': {'nzumax'}, 'LSUB': {'nzlmax'}, 'USUB': {'nzumax'}}


def is_xpand(name):
    return name is not None and name.endswith('LUMemXpand') and len(name) == len('LUMemXpand') + 1


def xpand_type(call, enums):
    a = strip(call.c[3]) if len(call.c) > 3 else None
    if a is not None and a.k == 'Ref' and a.a.get('dk') == 'EnumConstantDecl':
        return a.a['name']
    return None


class MayExpand(object):
    """function -> set of memory types it may expand (transitively)"""

    def __init__(self, prog):
        self.prog = prog
        self.m = {}
        for f in prog.topo_bottom_up():
            s = set()
            for (name, n, tgt, direct) in prog.callees(f):
                if is_xpand(name):
                    t = xpand_type(n, prog.enums)
                    s |= {t} if t else set(ORDER)
                elif tgt is not None:
                    s |= self.m.get((tgt.unit, tgt.name), set())
            if is_xpand(f.name):
                s = set()      # the expander itself: its effect is attributed at its call sites by the type argument
            self.m[(f.unit, f.name)] = s

    def of_call(self, f, call):
        name = callee_name(call)
        if is_xpand(name):
            t = xpand_type(call, self.prog.enums)
            return {t} if t else set(ORDER)
        tgt = self.prog.resolve(name, f.unit) if name else None
        if tgt is None:
            return set()
        return self.m.get((tgt.unit, tgt.name), set())


def glu_field(e):
    """if e (casts stripped) is Glu->F for a growable F, return F"""
    e = strip(e)
    if e.k == 'Member' and e.a['arrow'] and e.a['name'] in TYPE_OF_FIELD:
        b = strip(e.c[0])
        if b.k == 'Ref' and (b.t or '').replace(' ', '').startswith('GlobalLU_t*'):
            return e.a['name']
    return None


def aliases(f):
    """local var id -> growable field it aliases (assigned from Glu->F somewhere in f)"""
    out = {}
    for n in f.body.walk():
        if n.k == 'Var' and n.c:
            fld = glu_field(n.c[0])
            if fld:
                out[n.a['id']] = fld
        elif n.k == 'Assign' and n.a['op'] == '=' and strip(n.c[0]).k == 'Ref':
            fld = glu_field(n.c[1])
            if fld:
                out[strip(n.c[0]).a['id']] = fld
    return out


CAP_FIELDS = {'nzlumax', 'nzumax', 'nzlmax'}


def cap_field(e):
    e = strip(e)
    if e.k == 'Member' and e.a['arrow'] and e.a['name'] in CAP_FIELDS:
        b = strip(e.c[0])
        if b.k == 'Ref' and (b.t or '').replace(' ', '').startswith('GlobalLU_t*'):
            return e.a['name']
    return None


def cap_aliases(f):
    """local var id -> capacity field it copies (assigned from Glu->nz*max somewhere in f)"""
    out = {}
    for n in f.body.walk():
        if n.k == 'Var' and n.c:
            fld = cap_field(n.c[0])
            if fld:
                out[n.a['id']] = fld
        elif n.k == 'Assign' and n.a['op'] == '=' and strip(n.c[0]).k == 'Ref':
            fld = cap_field(n.c[1])
            if fld:
                out[strip(n.c[0]).a['id']] = fld
    return out


def check_freshness(chk, cid, prog, mx, f, cfgname):
    """(b): forward dataflow of the set of stale aliases (array pointers) and stale capacity copies"""
    al = aliases(f)
    caps = cap_aliases(f)
    if not al and not caps:
        return 0
    al = dict(al)
    for v, c in caps.items():
        al.setdefault(v, c)
    cfg = prog.cfg(f)
    # per CFG node: ordered events  ('call', types) | ('fresh', var) | ('use', var, node)
    def events(ast):
        ev = []

        def visit(e, lhs=False):
            e2 = strip(e)
            if e2.k == 'Assign':
                l = strip(e2.c[0])
                visit(e2.c[1])
                if l.k == 'Ref' and l.a.get('id') in al:
                    if e2.a['op'] == '=' and (glu_field(e2.c[1]) or cap_field(e2.c[1])) == al[l.a['id']]:
                        ev.append(('fresh', l.a['id']))
                    elif e2.a['op'] == '=':
                        ev.append(('fresh', l.a['id']))      # re-pointed elsewhere: no longer the stale alias
                    else:
                        ev.append(('use', l.a['id'], e2))
                else:
                    visit(e2.c[0])
                return
            if e2.k == 'Var':
                if e2.c:
                    visit(e2.c[0])
                    if e2.a['id'] in al:
                        ev.append(('fresh', e2.a['id']))
                return
            if e2.k == 'Call':
                for a in e2.c[1:]:
                    visit(a)
                t = mx.of_call(f, e2)
                if t:
                    ev.append(('call', frozenset(t), e2))
                if is_xpand(callee_name(e2)):
                    # ?LUMemXpand(jcol, next, type, &maxlen, Glu) refreshes the caller's copy of the capacity through maxlen
                    for a in e2.c[1:]:
                        a = strip(a)
                        if a.k == 'Unary' and a.a['op'] == '&' and strip(a.c[0]).k == 'Ref' and strip(a.c[0]).a.get('id') in caps:
                            ev.append(('fresh', strip(a.c[0]).a['id']))
                return
            if e2.k == 'Ref':
                if e2.a.get('id') in al:
                    ev.append(('use', e2.a['id'], e2))
                return
            for c in e2.c:
                visit(c)
        visit(ast)
        return ev
    evs = {}
    for n in cfg.nodes:
        if n.ast is not None and n.kind in ('stmt', 'cond', 'return', 'switch', 'abort'):
            evs[n.id] = events(n.ast)
    IN = {cfg.entry.id: frozenset()}
    work = [cfg.entry.id]
    found = {}
    ncalls = 0
    while work:
        nid = work.pop()
        stale = set(IN[nid])
        for ev in evs.get(nid, ()):
            if ev[0] == 'call':
                minord = min(ORDER[t] for t in ev[1])
                for v, fld in al.items():
                    if fld in CAP_FIELDS:
                        if any(fld in CAP_OF[t] for t in ev[1]):
                            stale.add((v, tuple(sorted(ev[1])), ev[2].line))
                    elif ORDER[TYPE_OF_FIELD[fld]] >= minord:
                        stale.add((v, tuple(sorted(ev[1])), ev[2].line))
            elif ev[0] == 'fresh':
                stale = {s for s in stale if s[0] != ev[1]}
            elif ev[0] == 'use':
                hit = [s for s in stale if s[0] == ev[1]]
                if hit:
                    found.setdefault((ev[1], hit[0][1]), (ev[2], hit[0]))
        out = frozenset(stale)
        for (s, lab) in cfg.nodes[nid].succ:
            if s not in IN:
                IN[s] = out
                work.append(s)
            elif not out <= IN[s]:
                IN[s] = IN[s] | out
                work.append(s)
    for nid, e in evs.items():
        ncalls += len([x for x in e if x[0] == 'call'])
    names = {vid: (f.locals[vid].a['name'] if vid in f.locals else '?') for vid in al}
    if not found:
        if ncalls:
            chk.ok(cid, '%s:%s' % (f.unit, f.name), sample='%d possibly-expanding call(s), %d alias(es) %s: all re-read before use'
                   % (ncalls, len(al), sorted(names.values())))
        return ncalls
    for (vid, types), (usenode, st) in sorted(found.items(), key=lambda kv: names[kv[0][0]]):
        fld = al[vid]
        if fld in CAP_FIELDS:
            chk.violate(cid, '%s:stale-capacity:%s-after-%s' % (f.name, names[vid], '+'.join(types)), loc(f, usenode), f.name,
                        'local `%s` is a copy of Glu->%s and is used at line %d after a call at line %d that may expand %s (and so raise that capacity): '
                        'the test against the old capacity asks for an expansion that is not needed, or - where the copy is later written back - '
                        'shrinks the recorded capacity below what is allocated; it must be re-read from Glu first'
                        % (names[vid], fld, usenode.line, st[2], '/'.join(types)), cfgname=cfgname)
            continue
        chk.violate(cid, '%s:stale-alias:%s-after-%s' % (f.name, names[vid], '+'.join(types)), loc(f, usenode), f.name,
                    'local `%s` aliases Glu->%s and is used at line %d after a call at line %d that may expand %s; growing %s moves %s when the '
                    'arrays live in a caller workspace (and reallocates it under malloc), so the alias must be re-read from Glu first'
                    % (names[vid], fld, usenode.line, st[2], '/'.join(types), '/'.join(types), fld), cfgname=cfgname)
    return ncalls


def check_sites(chk, cid, prog, f, cfgname):
    """(a) and (c) for the direct ?LUMemXpand call sites of f"""
    sites = []

    def walk(n, guards):
        if n.k == 'If':
            walk(n.c[0], guards + [('ifcond', n)])
            walk(n.c[1], guards + [('if', n)])
            if len(n.c) > 2:
                walk(n.c[2], guards + [('else', n)])
            return
        if n.k == 'While':
            walk(n.c[0], guards)
            walk(n.c[1], guards + [('while', n)])
            return
        if n.k == 'Call' and is_xpand(callee_name(n)):
            sites.append((n, list(guards)))
        for c in n.c:
            walk(c, guards)
    walk(f.body, [])
    caps = {}
    for n in f.body.walk():
        src = None
        if n.k == 'Var' and n.c:
            vid, src = n.a['id'], strip(n.c[0])
        elif n.k == 'Assign' and n.a['op'] == '=' and strip(n.c[0]).k == 'Ref':
            vid, src = strip(n.c[0]).a['id'], strip(n.c[1])
        if src is not None and src.k == 'Member' and src.a['name'] in ('nzlumax', 'nzumax', 'nzlmax'):
            caps[vid] = src.a['name']
    for (call, guards) in sites:
        T = xpand_type(call, prog.enums)
        inst = '%s:xpand@%s' % (f.name, T)
        nxt = strip(call.c[2])
        capa = strip(call.c[4])
        capv = strip(capa.c[0]) if capa.k == 'Unary' and capa.a['op'] == '&' else None
        # nearest guard that is a capacity comparison (skip the if that merely tests the call's own result)
        g = None
        for (kind, node) in reversed(guards):
            if kind in ('if', 'while'):
                c = strip(node.c[0])
                if c.k == 'Binary' and c.a['op'] in ('>', '>=', '<', '<='):
                    g = (kind, node, c)
                    break
        if T is None or capv is None or capv.k != 'Ref':
            chk.violate(cid, inst + ':shape', loc(f, call), f.name, 'cannot identify memory type / capacity argument of this expansion call', cfgname=cfgname)
            continue
        if capv.a['id'] in caps and caps[capv.a['id']] not in CAP_OF[T]:
            chk.violate(cid, inst + ':wrong-capacity', loc(f, call), f.name,
                        'expansion of %s is driven by `%s`, a copy of Glu->%s; the capacity of %s is Glu->%s'
                        % (T, capv.a['name'], caps[capv.a['id']], T, '/'.join(sorted(CAP_OF[T]))), cfgname=cfgname)
            continue
        if g is None:
            chk.violate(cid, inst + ':unguarded', loc(f, call), f.name, 'expansion call is not under a capacity test', cfgname=cfgname)
            continue
        kind, node, c = g
        lhs, rhs, op = strip(c.c[0]), strip(c.c[1]), c.a['op']
        if rhs.k != 'Ref' or rhs.a.get('id') != capv.a['id']:
            if lhs.k == 'Ref' and lhs.a.get('id') == capv.a['id']:
                lhs, rhs = rhs, lhs
                op = {'<': '>', '<=': '>=', '>': '<', '>=': '<='}[op]
            else:
                chk.violate(cid, inst + ':guard-capacity', loc(f, node), f.name,
                            'the test guarding this expansion (`%s`) does not compare against the capacity `%s` that the call enlarges'
                            % (pretty(c), capv.a['name']), cfgname=cfgname)
                continue
        post = lhs.k == 'Ref' and nxt.k == 'Ref' and lhs.a.get('id') == nxt.a.get('id')
        if post:
            if op == '>=':
                chk.ok(cid, inst + ':post-check', sample=pretty(c))
            else:
                chk.violate(cid, inst + ':post-check-operator', loc(f, node), f.name,
                            'post-check after an append must be `%s >= %s` (when the counter reaches the capacity the next append would overflow); found `%s`'
                            % (lhs.a['name'], rhs.a['name'], pretty(c)), cfgname=cfgname)
        else:
            # arrays that are also filled by store-then-test appends (`a[next++] = x; if (next >= cap) expand`) need next < cap before every such
            # append: a block pre-check on them has to be `needed >= cap`, `>` may leave next == cap (heap overrun by one, repaired in b9e9d82)
            strict = T in POSTCHECKED.get(id(prog), set())
            okop = op == '>=' if strict else op in ('>', '>=')
            if not okop:
                chk.violate(cid, inst + ':pre-check-operator', loc(f, node), f.name,
                            ('%s is also appended to with store-then-test (`if (next >= cap)`), which needs next < cap before each store: the block pre-check must be '
                             '`needed >= %s`, otherwise it can leave next == cap and the next append writes one element past the array; found `%s`'
                             % (FIELD_OF[T], rhs.a['name'], pretty(c))) if strict else
                            'pre-check must be `needed > %s` (or >=); found `%s`' % (rhs.a['name'], pretty(c)), cfgname=cfgname)
            elif kind != 'while':
                chk.violate(cid, inst + ':pre-check-not-repeated', loc(f, node), f.name,
                            'a pre-check for several elements (`%s`) must be a loop: ?expand may grant less than the request when space is short, so the test has '
                            'to be repeated until the need fits' % pretty(c), cfgname=cfgname)
            else:
                chk.ok(cid, inst + ':pre-check', sample='while (%s)' % pretty(c))
        # (d) the `next` argument is the number of entries to carry over: it must be the append cursor of this very array (a variable used as the
        #     subscript of the stores that fill it), or the very subscript of a store into it - a column start such as xusub[jcol] loses what was
        #     appended to the current column before the array ran full
        arr_names = {FIELD_OF[T]}
        for vid, fld in aliases(f).items():
            if fld == FIELD_OF[T] and vid in f.locals:
                arr_names.add(f.locals[vid].a.get('name'))
        subs = []
        for x in f.body.walk():
            if x.k == 'Assign' and strip(x.c[0]).k == 'Index':
                b = strip(strip(x.c[0]).c[0])
                bn = b.a.get('name') if b.k in ('Ref', 'Member') else None
                if b.k == 'Cast':
                    bb = strip(b)
                    bn = bb.a.get('name') if bb.k in ('Ref', 'Member') else bn
                if bn in arr_names:
                    sub = strip(strip(x.c[0]).c[1])
                    if sub.k == 'Unary' and sub.a['op'] in ('++', 'post++'):
                        sub = strip(sub.c[0])
                    subs.append(sub)
        cursors = [sb for sb in subs if sb.k == 'Ref' and sb.a.get('id') in f.locals]
        if cursors:      # the routine appends to the array itself (when a callee does the filling there is nothing to compare with)
            cursor_ok = any((nxt.k == 'Ref' and sb.a.get('id') == nxt.a.get('id')) for sb in cursors) or any(canon(sb) == canon(nxt) for sb in subs)
            if cursor_ok:
                chk.ok(cid, inst + ':carries-over-up-to-the-cursor', sample=pretty(nxt)[:30])
            else:
                chk.violate(cid, inst + ':carries-over-up-to-the-cursor', loc(f, call), f.name,
                            'the entry count `%s` passed to the expansion of %s is not the position up to which %s has been filled (the stores into it use %s): '
                            'under library allocation only that many entries are copied to the new block, so what was appended beyond it is lost'
                            % (pretty(nxt)[:30], T, FIELD_OF[T], sorted({pretty(sb)[:20] for sb in subs})), cfgname=cfgname)
        # (c) result tested and returned
        res_ok = False
        for (k2, nd) in reversed(guards):
            if k2 == 'ifcond':
                # call inside an if condition: then-branch must return
                res_ok = any(x.k == 'Return' for x in nd.c[1].walk())
                break
        if not res_ok:
            # assigned form: mem_error = call; next statement `if (mem_error) return ...`
            res_ok = _assigned_and_returned(f, call)
        if res_ok:
            chk.ok(cid, inst + ':failure-propagates')
        else:
            chk.violate(cid, inst + ':failure-dropped', loc(f, call), f.name,
                        'the result of the expansion call must be tested and, when non-zero, returned at once (out-of-space must reach info > n)', cfgname=cfgname)
    return len(sites)


def _assigned_and_returned(f, call):
    """`v = call;` followed (in the same statement list) by `if (v) return ...;`"""
    def rec(blk):
        if blk.k == 'Block':
            for i, s in enumerate(blk.c):
                if s.k in ('Assign', 'Var'):
                    tgt = None
                    if s.k == 'Assign' and any(x is call for x in s.c[1].walk()):
                        tgt = strip(s.c[0])
                    elif s.k == 'Var' and s.c and any(x is call for x in s.c[0].walk()):
                        tgt = s
                    if tgt is not None:
                        vid = tgt.a.get('id') if tgt.k in ('Ref', 'Var') else None
                        for nxt in blk.c[i + 1:i + 3]:
                            if nxt.k == 'If' and any(x.k == 'Return' for x in nxt.c[1].walk()):
                                refs = [x for x in nxt.c[0].walk() if x.k == 'Ref' and x.a.get('id') == vid]
                                if refs or vid is None:
                                    return True
                        return False
                elif s.k == 'Decl':
                    for v in s.c:
                        if v.k == 'Var' and v.c and any(x is call for x in v.c[0].walk()):
                            vid = v.a['id']
                            for nxt in blk.c[i + 1:i + 3]:
                                if nxt.k == 'If' and any(x.k == 'Return' for x in nxt.c[1].walk()) and \
                                        [x for x in nxt.c[0].walk() if x.k == 'Ref' and x.a.get('id') == vid]:
                                    return True
                            return False
        for c in blk.c:
            r = rec(c)
            if r is not None:
                return r
        return None
    return bool(rec(f.body))


XPTR = {'xlsub': ('LSUB', 'nzlmax'), 'xlusup': ('LUSUP', 'nzlumax'), 'xusub': ('USUB', 'nzumax')}


def check_increment_advance(chk, cid, prog, f, cfgname):
    """a column-pointer entry of a growable array that is *incremented* (x[j+1]++) extends the used prefix by one element:
    the same statement list must test the matching capacity before (and the test must lead to an expansion call)"""
    xal = {}
    for n in f.body.walk():
        src = None
        if n.k == 'Var' and n.c:
            vid, src = n.a['id'], strip(n.c[0])
        elif n.k == 'Assign' and n.a['op'] == '=' and strip(n.c[0]).k == 'Ref':
            vid, src = strip(n.c[0]).a['id'], strip(n.c[1])
        if src is not None and src.k == 'Member' and src.a['name'] in XPTR:
            xal[vid] = src.a['name']
    cnt = 0

    def rec(blk):
        nonlocal cnt
        if blk.k == 'Block':
            for i, s in enumerate(blk.c):
                e = strip(s)
                if e.k == 'Unary' and e.a['op'] == '++' and strip(e.c[0]).k == 'Index':
                    base = strip(strip(e.c[0]).c[0])
                    fld = None
                    if base.k == 'Ref' and base.a.get('id') in xal:
                        fld = xal[base.a['id']]
                    elif base.k == 'Member' and base.a['name'] in XPTR:
                        fld = base.a['name']
                    if fld:
                        cnt += 1
                        T, capname = XPTR[fld]
                        ok = False
                        for prev0 in blk.c[:i]:
                            cands = [prev0] if prev0.k in ('If', 'While') else ([x for x in prev0.c if x.k in ('If', 'While')] if prev0.k == 'Block' else [])
                            for prev in cands:
                                cond = prev.c[0]
                                reads_cap = False
                                for x in cond.walk():
                                    if x.k == 'Ref' and x.a.get('dk') == 'VarDecl':
                                        v = f.locals.get(x.a['id'])
                                        if v is not None and v.c and strip(v.c[0]).k == 'Member' and strip(v.c[0]).a['name'] == capname:
                                            reads_cap = True
                                    if x.k == 'Member' and x.a['name'] == capname:
                                        reads_cap = True
                                calls = [y for y in prev.walk() if y.k == 'Call' and is_xpand(callee_name(y)) and xpand_type(y, prog.enums) == T]
                                if reads_cap and calls:
                                    ok = True
                        inst = '%s:advance-by-increment:%s' % (f.name, fld)
                        if ok:
                            chk.ok(cid, inst, sample=pretty(s))
                        else:
                            chk.violate(cid, inst, loc(f, s), f.name,
                                        '`%s` extends the used part of %s by one element, but no test of Glu->%s with a %s expansion precedes it in this block: when the '
                                        'array is exactly full the element stored for this column lies past its end' % (pretty(s), FIELD_OF[T], capname, T), cfgname=cfgname)
        for c in blk.c:
            rec(c)
    rec(f.body)
    return cnt


POSTCHECKED = {}


def _postchecked_types(prog):
    """memory types that have at least one store-then-test expansion site somewhere in the library"""
    out = set()
    for f in prog.all_funcs():
        if f.unit.startswith(('CBLAS/', 'FORTRAN/')):
            continue
        for x in f.body.walk():
            if x.k == 'If':
                c = strip(x.c[0])
                if c.k == 'Binary' and c.a['op'] == '>=' and strip(c.c[0]).k == 'Ref' and strip(c.c[1]).k == 'Ref':
                    for y in x.c[1].walk():
                        if y.k == 'Call' and is_xpand(callee_name(y)) and len(y.c) > 3:
                            nxt = strip(y.c[2])
                            if nxt.k == 'Ref' and nxt.a.get('id') == strip(c.c[0]).a.get('id'):
                                t = xpand_type(y, prog.enums)
                                if t:
                                    out.add(t)
    return out


def run(chk, cid_prefix, prog, cfgname, units=None):
    mx = MayExpand(prog)
    POSTCHECKED[id(prog)] = _postchecked_types(prog)
    ca = chk.clause(cid_prefix + '.a', 'capacity test guards every expansion; failure propagates')
    cb = chk.clause(cid_prefix + '.b', 'aliases re-read after a possible expansion')
    ns = nc = 0
    for f in prog.all_funcs():
        if f.unit.startswith(('CBLAS/', 'FORTRAN/')):
            continue
        if units is not None and f.unit not in units:
            continue
        if not mx.m.get((f.unit, f.name)) and not any(is_xpand(n) for (n, _, _, _) in prog.callees(f)):
            continue
        chk.saw(unit=f.unit, func=f.unit + ':' + f.name)
        if not is_xpand(f.name):
            ns += check_sites(chk, cid_prefix + '.a', prog, f, cfgname)
        nc += check_freshness(chk, cid_prefix + '.b', prog, mx, f, cfgname)
        check_increment_advance(chk, cid_prefix + '.a', prog, f, cfgname)
    return ns, nc
