"""Rules on the numeric kernels (sp_?trsv, sp_?gemv, ?gstrs, ?column_bmod, ?panel_bmod, ?snode_bmod ...).

scratch_clean_rule   an accumulating dense kernel (?matvec always, ?gemv_/?gemm_ with beta == 1) adds into a scratch vector that is assumed to be
                     all zero on entry.  After every such call the scratch must be cleared again before the call can be repeated or the routine
                     returns: every path from the call to itself / to the function exit passes through a loop that stores zero to the scratch.
strided_cursor_rule  a cursor advanced by a stride parameter (jx += incx) walks a vector in lock step with the enclosing loop: the increment must be an
                     unconditional statement of the loop body (executed exactly once per iteration).
"""
import re
from ..facts import strip, callee_name, const_value, loc, root_ref, canon
from ..ir import pretty

SCRATCH = {'work', 'tempv', 'tempv1', 'MatvecTmp', 'work_col'}
ZERO_NAMES = {'zero', 'comp_zero'}


def _is_zero(e, f):
    e = strip(e)
    if e.k == 'Float':
        return e.a['value'] == 0.0
    if const_value(e) == 0:
        return True
    if e.k == 'Ref' and e.a.get('name') in ZERO_NAMES:
        return True
    return False


def _const_of_local(f, vid):
    """value of a local that is defined once with a constant (double beta = 1.0; doublecomplex beta = {1.0, 0.0}); None if unknown"""
    vals = []
    for x in f.body.walk():
        if x.k == 'Var' and x.a.get('id') == vid and x.c:
            vals.append(x.c[0])
        elif x.k == 'Assign' and strip(x.c[0]).k == 'Ref' and strip(x.c[0]).a.get('id') == vid:
            if x.a['op'] != '=':
                return None
            vals.append(x.c[1])
        elif x.k == 'Assign' and strip(x.c[0]).k == 'Member' and root_ref(x.c[0]) is not None and root_ref(x.c[0]).a.get('id') == vid:
            return None
        elif x.k == 'Unary' and x.a['op'] == '&' and strip(x.c[0]).k == 'Ref' and strip(x.c[0]).a.get('id') == vid:
            pass    # passed by address to BLAS (read-only there)
    if len(vals) != 1:
        return None
    v = strip(vals[0])
    if v.k == 'InitList':
        parts = []
        for c in v.c:
            c = strip(c)
            parts.append(c.a['value'] if c.k == 'Float' else const_value(c))
        if len(parts) == 2 and parts[1] in (0, 0.0) and parts[0] is not None:
            return float(parts[0])
        return None
    if v.k == 'Float':
        return v.a['value']
    cv = const_value(v)
    return float(cv) if cv is not None else None


def _accumulates(f, call, p):
    """(out argument node) when the call adds into its output"""
    name = callee_name(call)
    a = call.c[1:]
    if name == p + 'matvec' and len(a) == 6:
        return a[5]
    spec = {p + 'gemv_': (8, 9, 11), p + 'gemm_': (10, 11, 13)}.get(name)
    if spec and len(a) == spec[2]:
        b = strip(a[spec[0]])
        if b.k == 'Unary' and b.a['op'] == '&' and strip(b.c[0]).k == 'Ref':
            val = _const_of_local(f, strip(b.c[0]).a.get('id'))
            if val == 1.0:
                return a[spec[1]]
    return None


def _family(f, rootid):
    """variables that point into the same scratch block: root, and every local assigned &root[..] / root + .. (transitively)"""
    fam = {rootid}
    changed = True
    while changed:
        changed = False
        for x in f.body.walk():
            tgt = rhs = None
            if x.k == 'Assign' and x.a['op'] == '=' and strip(x.c[0]).k == 'Ref':
                tgt, rhs = strip(x.c[0]).a.get('id'), x.c[1]
            elif x.k == 'Var' and x.c:
                tgt, rhs = x.a.get('id'), x.c[0]
            if tgt is None or tgt in fam or not (x.t or (x.c[0].t if x.k == 'Assign' else '') or '').strip().endswith('*'):
                continue
            r = root_ref(strip(rhs).c[0]) if strip(rhs).k == 'Unary' and strip(rhs).a['op'] == '&' else (root_ref(rhs) if strip(rhs).k in ('Binary', 'Ref') else None)
            if r is not None and r.a.get('id') in fam:
                fam.add(tgt)
                changed = True
    return fam


def scratch_clean_rule(chk, cid, prog, p, funcs, cfgname, skip_roots=()):
    n = 0
    for fname in funcs:
        f = prog.func(fname)
        if f is None:
            continue
        cfg = prog.cfg(f)
        node_of = {}
        for cn in cfg.nodes:
            if cn.ast is not None and cn.kind in ('stmt', 'cond', 'return', 'switch', 'abort'):
                for x in cn.ast.walk():
                    node_of.setdefault(id(x), cn.id)
        calls = []
        for x in f.body.walk():
            if x.k == 'Call':
                out = _accumulates(f, x, p)
                if out is None:
                    continue
                o = strip(out)
                r = root_ref(o.c[0]) if (o.k == 'Unary' and o.a['op'] == '&') else root_ref(o)
                if r is None or r.a.get('name') not in SCRATCH or r.a.get('name') in skip_roots:
                    continue
                calls.append((x, r))
        if not calls:
            continue
        chk.saw(unit=f.unit, func=f.unit + ':' + f.name)
        for (call, r) in calls:
            fam = _family(f, r.a['id'])
            # reverse: the root may itself be an alias (tempv1 = &tempv[..]): include what it points into
            for x in f.body.walk():
                if x.k == 'Assign' and x.a['op'] == '=' and strip(x.c[0]).k == 'Ref' and strip(x.c[0]).a.get('id') == r.a['id']:
                    rr = strip(x.c[1])
                    base = root_ref(rr.c[0]) if (rr.k == 'Unary' and rr.a['op'] == '&') else (root_ref(rr) if rr.k in ('Binary', 'Ref') else None)
                    if base is not None and base.a.get('id'):
                        fam |= _family(f, base.a['id'])
            heads = set()

            def clears(lp):
                """the loop stores zero into the scratch on every iteration: directly, or through a loop that is itself an unconditional statement of its body"""
                body = lp.c[3] if lp.k == 'For' else lp.c[1]
                stmts = body.c if body.k == 'Block' else [body]
                parts = set()
                for st in stmts:
                    if st.k in ('For', 'While'):
                        if clears(st):
                            return True
                        continue
                    st = strip(st)
                    if st.k == 'Assign' and st.a['op'] == '=' and _is_zero(st.c[1], f):
                        lv = strip(st.c[0])
                        b = root_ref(lv)
                        if b is None or b.a.get('id') not in fam:
                            continue
                        if lv.k == 'Index':
                            return True
                        if lv.k == 'Member' and strip(lv.c[0]).k == 'Index' and lv.a['name'] in ('r', 'i'):
                            parts.add(lv.a['name'])      # complex element cleared as  x.r = 0; x.i = 0;
                return parts == {'r', 'i'}
            for lp in f.body.walk():
                if lp.k in ('For', 'While') and clears(lp):
                    cnd = lp.c[1] if lp.k == 'For' else lp.c[0]
                    for y in cnd.walk():
                        if id(y) in node_of:
                            heads.add(node_of[id(y)])
                            break
            k = node_of.get(id(call))
            n += 1
            inst = '%s:scratch-cleared-after:%s@%s' % (f.name, callee_name(call), r.a['name'])
            if k is None:
                chk.violate(cid, inst, loc(f, call), f.name, 'cannot place the call in the control-flow graph', cfgname=cfgname)
                continue
            bad = None
            seen = set()
            st = [s for (s, _) in cfg.nodes[k].succ]
            while st:
                q = st.pop()
                if q in seen or q in heads:
                    continue
                seen.add(q)
                if q == cfg.exit.id:
                    bad = 'the end of the routine'
                    break
                if q == k:
                    bad = 'the next execution of the same call'
                    break
                if cfg.nodes[q].kind == 'abort':
                    continue
                st.extend(s for (s, _) in cfg.nodes[q].succ)
            if bad is None and heads:
                chk.ok(cid, inst, sample='%d clearing loop(s)' % len(heads))
            else:
                chk.violate(cid, inst, loc(f, call), f.name,
                            '%s adds its result into `%s`, which must be all zero when the call is made; there is a path from this call to %s that does not '
                            'pass through a loop storing zero into it, so the next update starts from stale contents'
                            % (callee_name(call), r.a['name'], bad or 'the end of the routine (no clearing loop found)'), cfgname=cfgname)
    return n


def strided_cursor_rule(chk, cid, prog, funcs, cfgname):
    n = 0
    for fname in funcs:
        f = prog.func(fname)
        if f is None:
            continue
        params = {i: nm for (nm, i, t) in f.params}

        def is_stride(e):
            e = strip(e)
            if e.k == 'Unary' and e.a['op'] == '*':
                e = strip(e.c[0])
            return e.k == 'Ref' and e.a.get('id') in params and params[e.a['id']].startswith('inc')

        def walk(x, loop, direct):
            """loop: innermost enclosing loop node; direct: x is an unconditional statement of that loop's body"""
            nonlocal n
            if x.k in ('For', 'While', 'Do'):
                body = x.c[3] if x.k == 'For' else (x.c[1] if x.k == 'While' else x.c[0])
                for c in x.c:
                    if c is body:
                        if body.k == 'Block':
                            for s in body.c:
                                walk(s, x, True)
                        else:
                            walk(body, x, True)
                    else:
                        walk(c, loop, False)
                return
            if x.k == 'Assign' and x.a['op'] == '+=' and strip(x.c[0]).k == 'Ref' and is_stride(x.c[1]) and loop is not None:
                n += 1
                chk.saw(unit=f.unit, func=f.unit + ':' + f.name)
                inst = '%s:cursor-advances-every-iteration:%s@%d' % (f.name, strip(x.c[0]).a['name'], n)
                if direct:
                    chk.ok(cid, inst, sample=pretty(x))
                else:
                    chk.violate(cid, inst, loc(f, x), f.name,
                                '`%s` walks a strided vector in step with the enclosing loop, but it is advanced only on some paths through the loop body: '
                                'after an iteration that skips it every later element is taken from the wrong position' % pretty(x), cfgname=cfgname)
                return
            if x.k == 'Block' and direct:
                for c in x.c:
                    walk(c, loop, True)
                return
            for c in x.c:
                walk(c, loop, False)
        walk(f.body, None, False)
    return n


def run_basic(chk, cid, prog, cfgname, groups, floor_scratch=None, floor_cursor=None):
    """groups: 'trsv' (sp_?trsv), 'gemv' (sp_?gemv/sp_?gemm, i?max1), 'solve' (?gstrs), 'bmod' (?column_bmod, ?panel_bmod 1-D part, ?snode_bmod)"""
    chk.clause(cid + '.scratch', 'accumulating dense kernels start from a cleared scratch vector')
    if 'gemv' in groups:
        chk.clause(cid + '.cursor', 'strided cursors advance once per iteration')
    ns = nc = 0
    for p in 'sdcz':
        fs = []
        if 'trsv' in groups:
            fs.append('sp_%strsv' % p)
        if 'solve' in groups:
            fs.append(p + 'gstrs')
        if 'bmod' in groups:
            fs += [p + 'column_bmod', p + 'panel_bmod', p + 'snode_bmod', 'ilu_%scolumn_bmod' % p]
        # the 2-D blocked update of ?panel_bmod clears MatvecTmp in a second sweep over the panel under the same segment-size guard: see segsze rule
        ns += scratch_clean_rule(chk, cid + '.scratch', prog, p, fs, cfgname, skip_roots=('MatvecTmp',))
        if 'gemv' in groups:
            nc += strided_cursor_rule(chk, cid + '.cursor', prog, ['sp_%sgemv' % p, 'sp_%sgemm' % p], cfgname)
    if 'gemv' in groups:
        nc += strided_cursor_rule(chk, cid + '.cursor', prog, ['icmax1', 'izmax1'], cfgname)
    from ..run import AnalysisBroken
    if floor_scratch is not None and ns < floor_scratch:
        raise AnalysisBroken('%s: %d accumulating calls into scratch found, floor %d' % (cid, ns, floor_scratch))
    if floor_cursor is not None and nc < floor_cursor:
        raise AnalysisBroken('%s: %d strided cursor increments found, floor %d' % (cid, nc, floor_cursor))
    return ns, nc


# ---------------------------------------------------------------- segment-size guard agreement on the scratch of the blocked update
REPS = tuple(range(0, 10))


def _eval_seg(cond, segid, v):
    """three-valued truth of cond when segsze == v (None: does not depend on segsze only)"""
    c = strip(cond)
    if c.k == 'Unary' and c.a['op'] == '!':
        r = _eval_seg(c.c[0], segid, v)
        return None if r is None else (not r)
    if c.k == 'Binary' and c.a['op'] in ('&&', '||'):
        a, b = _eval_seg(c.c[0], segid, v), _eval_seg(c.c[1], segid, v)
        if c.a['op'] == '&&':
            if a is False or b is False:
                return False
            return True if (a is True and b is True) else None
        if a is True or b is True:
            return True
        return False if (a is False and b is False) else None
    if c.k == 'Binary' and c.a['op'] in ('==', '!=', '<', '<=', '>', '>='):
        l, r = strip(c.c[0]), strip(c.c[1])
        op = c.a['op']
        if r.k == 'Ref' and r.a.get('id') == segid and const_value(l) is not None:
            l, r = r, l
            op = {'<': '>', '<=': '>=', '>': '<', '>=': '<=', '==': '==', '!=': '!='}[op]
        if l.k == 'Ref' and l.a.get('id') == segid and const_value(r) is not None:
            k = const_value(r)
            return {'==': v == k, '!=': v != k, '<': v < k, '<=': v <= k, '>': v > k, '>=': v >= k}[op]
    return None


def _ends_loop_iteration(s):
    s = s if s.k in ('Block', 'If') else strip(s)
    if s.k == 'Block':
        return bool(s.c) and _ends_loop_iteration(s.c[-1])
    return s.k in ('Continue', 'Break', 'Return', 'Goto')


def segsze_guard_rule(chk, cid, prog, fname, cfgname, scratch=('TriTmp', 'MatvecTmp')):
    """In the 2-D blocked update the triangular solves of all panel columns are done first (results parked in TriTmp), then the block-row products,
    then the results are scattered back.  Short segments (1..3) are handled by unrolled code that never touches TriTmp.  Every statement that touches
    the parked vectors must therefore run for exactly the same set of segment sizes: the set of values of `segsze` under which it is reached
    (from the if / else-if / continue tests on segsze that dominate it inside its panel-column loop) is computed for each and all must agree."""
    f = prog.func(fname)
    if f is None:
        from ..run import AnalysisBroken
        raise AnalysisBroken('%s not found' % fname)
    chk.saw(unit=f.unit, func=f.unit + ':' + f.name)
    segid = next((k for k, v in f.locals.items() if v.a.get('name') == 'segsze'), None)
    if segid is None:
        from ..run import AnalysisBroken
        raise AnalysisBroken('%s: local segsze not found' % fname)
    found = []      # (stmt, frozenset of reps)

    def mentions(x):
        return any(y.k == 'Ref' and y.a.get('name') in scratch for y in x.walk())

    def assigns_seg(x):
        return any(y.k == 'Assign' and strip(y.c[0]).k == 'Ref' and strip(y.c[0]).a.get('id') == segid for y in x.walk())

    def walk(stmts, S, inloop):
        S = set(S)
        for st in stmts:
            if st.k == 'If':
                St = {v for v in S if _eval_seg(st.c[0], segid, v) is not False}
                Sf = {v for v in S if _eval_seg(st.c[0], segid, v) is not True}
                walk(st.c[1].c if st.c[1].k == 'Block' else [st.c[1]], St, inloop)
                if len(st.c) > 2:
                    walk(st.c[2].c if st.c[2].k == 'Block' else [st.c[2]], Sf, inloop)
                t_ends = _ends_loop_iteration(st.c[1])
                e_ends = len(st.c) > 2 and _ends_loop_iteration(st.c[2])
                if t_ends and not e_ends:
                    S = Sf
                elif e_ends and not t_ends:
                    S = St
                continue
            if st.k in ('For', 'While'):
                body = st.c[3] if st.k == 'For' else st.c[1]
                inner = body.c if body.k == 'Block' else [body]
                if assigns_seg(body):
                    walk(inner, set(REPS), True)
                else:
                    walk(inner, S, inloop)
                continue
            if st.k == 'Block':
                walk(st.c, S, inloop)
                continue
            if assigns_seg(st):
                S = set(REPS)
                continue
            s2 = strip(st)
            if s2.k == 'Assign' and strip(s2.c[0]).k == 'Ref' and strip(s2.c[0]).a.get('name') in scratch:
                continue        # re-pointing the scratch pointer itself (TriTmp = tempv; MatvecTmp = &TriTmp[maxsuper]) touches no element
            if inloop and mentions(st):
                found.append((st, frozenset(S)))
    walk(f.body.c, set(REPS), False)
    # group by the 2-D branch: statements that mention TriTmp/MatvecTmp and sit in loops that (re)compute segsze
    sets = {}
    for st, S in found:
        sets.setdefault(S, []).append(st)
    n = len(found)
    inst = '%s:scratch-touched-for-one-set-of-segment-sizes' % fname
    if n < 6:
        from ..run import AnalysisBroken
        raise AnalysisBroken('%s: only %d statements touching %s found under segsze tests' % (fname, n, '/'.join(scratch)))
    if len(sets) == 1:
        S = next(iter(sets))
        chk.ok(cid, inst, sample='%d statements, all reached for segsze in %s' % (n, _fmt(S)))
    else:
        # the minority set is the suspect
        order = sorted(sets.items(), key=lambda kv: (len(kv[1]), kv[1][0].line))
        bad = order[0]
        major = order[-1]
        chk.violate(cid, inst, loc(f, bad[1][0]), fname,
                    'the parked triangular-solve vectors are filled, multiplied and scattered back under different segment-size tests: the statement at line %d '
                    'runs for segsze in %s, the other %d for segsze in %s - a segment of a size in the difference is overwritten with (or contributes) '
                    'a vector that was never computed' % (bad[1][0].line, _fmt(bad[0]), len(major[1]), _fmt(major[0])), cfgname=cfgname)
    return 1


def _fmt(S):
    S = sorted(S)
    if not S:
        return '{}'
    if S[-1] == REPS[-1]:
        lo = S[-1]
        while lo - 1 in S:
            lo -= 1
        rest = [v for v in S if v < lo]
        return '{%s}' % ', '.join([str(v) for v in rest] + ['>= %d' % lo])
    return '{%s}' % ', '.join(map(str, S))


# ---------------------------------------------------------------- layout of the tempv scratch of the 2-D update
def _single_def(f, vid):
    ds = []
    for x in f.body.walk():
        if x.k == 'Var' and x.a.get('id') == vid and x.c:
            ds.append(x.c[0])
        elif x.k == 'Assign' and strip(x.c[0]).k == 'Ref' and strip(x.c[0]).a.get('id') == vid:
            ds.append(x.c[1] if x.a['op'] == '=' else None)
    return ds[0] if len(ds) == 1 else None


def ienv_value(f, e, depth=0):
    """symbolic value of an int expression in terms of the tuning parameters sp_ienv(k):  ('ienv', k) | ('max', frozenset) | ('sum', tuple) | None"""
    if e is None or depth > 6:
        return None
    e = strip(e)
    if e.k == 'Call' and callee_name(e) == 'sp_ienv' and len(e.c) == 2 and const_value(e.c[1]) is not None:
        return ('ienv', const_value(e.c[1]))
    if e.k == 'Ref' and e.a.get('id'):
        return ienv_value(f, _single_def(f, e.a['id']), depth + 1)
    if e.k == 'Cond':
        c = strip(e.c[0])
        if c.k == 'Binary' and c.a['op'] in ('>', '>=', '<', '<='):
            a, b = ienv_value(f, c.c[0], depth + 1), ienv_value(f, c.c[1], depth + 1)
            x, y = ienv_value(f, e.c[1], depth + 1), ienv_value(f, e.c[2], depth + 1)
            if None not in (a, b, x, y) and {a, b} == {x, y}:
                big = (c.a['op'] in ('>', '>=')) == (x == a)
                return ('max' if big else 'min', frozenset((a, b)))
        return None
    if e.k == 'Binary' and e.a['op'] == '+':
        a, b = ienv_value(f, e.c[0], depth + 1), ienv_value(f, e.c[1], depth + 1)
        if a is not None and b is not None:
            return ('sum', tuple(sorted((a, b), key=repr)))
    return None


MAXSUPER = ('max', frozenset((('ienv', 3), ('ienv', 7))))
ROWBLK = ('ienv', 4)
LDATMP = ('sum', tuple(sorted((MAXSUPER, ROWBLK), key=repr)))


def tempv_layout_rule(chk, cid, prog, p, cfgname):
    """tempv holds, per panel column, [ maxsuper entries for the triangular solve | rowblk entries for one block-row product ] with
    maxsuper = max(sp_ienv(3), sp_ienv(7)) (no supernode is wider: ?column_dfs caps at sp_ienv(3), the ILU variant at sp_ienv(7)) and rowblk = sp_ienv(4).
    The routine that sizes the array (?LUWorkInit), the one that clears it (?SetRWork) and the one that uses it (?panel_bmod) must agree on that layout:
    column stride maxsuper + rowblk, product vector at offset maxsuper, at most rowblk rows per product."""
    n = 0
    f = prog.func(p + 'panel_bmod')
    if f is None:
        from ..run import AnalysisBroken
        raise AnalysisBroken('%spanel_bmod not found' % p)
    chk.saw(unit=f.unit, func=f.unit + ':' + f.name)

    def V(key, node, what, g=f):
        chk.violate(cid, '%s:%s' % (g.name, key), loc(g, node), g.name, what, cfgname=cfgname)
    # a. MatvecTmp = &TriTmp[maxsuper]
    n += 1
    mv = [x for x in f.body.walk() if x.k == 'Assign' and x.a['op'] == '=' and strip(x.c[0]).k == 'Ref' and strip(x.c[0]).a.get('name') == 'MatvecTmp']
    ok = False
    for x in mv:
        r = strip(x.c[1])
        off = None
        if r.k == 'Unary' and r.a['op'] == '&' and strip(r.c[0]).k == 'Index' and strip(strip(r.c[0]).c[0]).a.get('name') == 'TriTmp':
            off = strip(r.c[0]).c[1]
        elif r.k == 'Binary' and r.a['op'] == '+' and strip(r.c[0]).a.get('name') == 'TriTmp':
            off = r.c[1]
        ok = off is not None and ienv_value(f, off) == MAXSUPER
        if not ok:
            V('product-vector-offset', x, 'the block-row product vector must start max(sp_ienv(3), sp_ienv(7)) entries behind the triangular-solve vector of its column '
              '(a segment can be that long); it is placed at offset `%s`, so a long segment and its product overlap' % (pretty(off)[:30] if off is not None else '?'))
    if ok and len(mv) == 1:
        chk.ok(cid, '%s:product-vector-offset' % f.name, sample=pretty(mv[0])[:60])
    elif not mv:
        V('product-vector-offset', f.body, 'MatvecTmp is never bound')
    # b. column stride
    n += 1
    lda = next((k for k, v in f.locals.items() if v.a.get('name') == 'ldaTmp'), None)
    okb = lda is not None and ienv_value(f, _single_def(f, lda)) == LDATMP
    incs = [x for x in f.body.walk() if x.k == 'Assign' and x.a['op'] == '+=' and strip(x.c[0]).k == 'Ref' and strip(x.c[0]).a.get('name') == 'TriTmp']
    okc = len(incs) >= 3 and all(strip(x.c[1]).k == 'Ref' and strip(x.c[1]).a.get('id') == lda for x in incs)
    if okb and okc:
        chk.ok(cid, '%s:column-stride' % f.name, sample='ldaTmp = maxsuper + rowblk, %d sweeps advance TriTmp by it' % len(incs))
    else:
        V('column-stride', incs[0] if incs else f.body, 'each panel column owns maxsuper + rowblk entries of tempv: ldaTmp must be max(sp_ienv(3), sp_ienv(7)) + sp_ienv(4) and every '
          'sweep over the panel must advance TriTmp by ldaTmp')
    # c. rows per product
    n += 1
    bn = next((k for k, v in f.locals.items() if v.a.get('name') == 'block_nrow'), None)
    d = strip(_single_def(f, bn)) if bn and _single_def(f, bn) is not None else None
    okd = False
    if d is not None and d.k == 'Cond':
        vals = [ienv_value(f, d.c[1]), ienv_value(f, d.c[2])]
        c = strip(d.c[0])
        okd = ROWBLK in vals and c.k == 'Binary' and c.a['op'] in ('<', '<=', '>', '>=')
        # it must be a minimum: the branch taken when rowblk is the smaller one yields rowblk
        if okd:
            l, r = ienv_value(f, c.c[0]), ienv_value(f, c.c[1])
            lt = c.a['op'] in ('<', '<=')
            first_is_rowblk = vals[0] == ROWBLK
            okd = (l == ROWBLK and lt == first_is_rowblk) or (r == ROWBLK and lt != first_is_rowblk)
    if okd:
        chk.ok(cid, '%s:rows-per-product' % f.name, sample=pretty(d)[:70])
    else:
        V('rows-per-product', f.body, 'block_nrow must be min(rowblk, rows left) with rowblk = sp_ienv(4): only rowblk entries are reserved for the product vector')
    # d. sizing and clearing
    for gname in (p + 'LUWorkInit', p + 'SetRWork'):
        g = prog.func(gname)
        if g is None:
            from ..run import AnalysisBroken
            raise AnalysisBroken('%s not found' % gname)
        chk.saw(unit=g.unit, func=g.unit + ':' + g.name)
        n += 1
        okg = False
        for x in g.body.walk():
            if x.k == 'Binary' and x.a['op'] == '*':
                for a, b in ((x.c[0], x.c[1]), (x.c[1], x.c[0])):
                    if ienv_value(g, a) == LDATMP:
                        okg = True
        if okg:
            chk.ok(cid, '%s:tempv-extent' % gname, sample='(maxsuper + rowblk) * panel_size')
        else:
            V('tempv-extent', g.body, '%s must size / clear tempv with (max(sp_ienv(3), sp_ienv(7)) + sp_ienv(4)) entries per panel column, the layout ?panel_bmod uses' % gname, g)
    # e. supernode width caps
    for gname, k in ((p + 'column_dfs', 3), ('ilu_' + p + 'column_dfs', 7)):
        g = prog.func(gname)
        if g is None:
            continue
        n += 1
        ms = next((kk for kk, v in g.locals.items() if v.a.get('name') == 'maxsuper'), None)
        if ms is not None and ienv_value(g, _single_def(g, ms)) == ('ienv', k):
            chk.ok(cid, '%s:supernode-width-cap' % gname, sample='maxsuper = sp_ienv(%d)' % k)
        else:
            V('supernode-width-cap', g.body, 'supernodes are capped at sp_ienv(%d) columns here; the scratch layout reserves max(sp_ienv(3), sp_ienv(7)) for a segment' % k, g)
    return n


# ---------------------------------------------------------------- leading dimension of supernodal storage
LUSUP_NAMES = {'lusup', 'Lval'}
STRIDE_NAMES = {'nsupr', 'ldm'}


def _all_defs(f, vid):
    ds = []
    for x in f.body.walk():
        if x.k == 'Var' and x.a.get('id') == vid and x.c:
            ds.append(x.c[0])
        elif x.k == 'Assign' and x.a['op'] == '=' and strip(x.c[0]).k == 'Ref' and strip(x.c[0]).a.get('id') == vid:
            ds.append(x.c[1])
    return ds


def _is_stride(f, e, depth=0):
    """the leading dimension of a supernode block: nsupr / ldm, a difference of two entries of xlsub[] (rows of the supernode) or of xlusup[]
    (values per column), a local defined as one of these, or such a quantity plus/minus a correction (m + 1: step along the diagonal; m - r: the
    leading dimension after r rows were dropped)"""
    if depth > 4:
        return False
    e = strip(e)
    if e.k == 'Ref':
        if e.a.get('name') in STRIDE_NAMES:
            return True
        return bool(e.a.get('id')) and any(_is_stride(f, d, depth + 1) for d in _all_defs(f, e.a['id']))
    if e.k == 'Binary' and e.a['op'] in ('-', '+'):
        a, b = strip(e.c[0]), strip(e.c[1])

        def tbl(x):
            if x.k == 'Index':
                b0 = strip(x.c[0])
                return b0.a.get('name') in ('xlsub', 'rowind_colptr', 'xlusup', 'nzval_colptr')
            if x.k == 'Ref' and x.a.get('id'):
                return any(tbl(strip(d)) for d in _all_defs(f, x.a['id']))
            return False
        if e.a['op'] == '-' and tbl(a) and tbl(b):
            return True
        return _is_stride(f, a, depth + 1)      # stride +/- correction (the left operand carries the kind: luptr - nsupr is a position)
    return False


def lusup_stride_rule(chk, cid, prog, fnames, cfgname):
    """The numerical values of a supernode are a dense column-major block whose leading dimension is the number of rows of the supernode (nsupr), not
    its number of columns.  Any product that contributes to a position in that block - inside a subscript of lusup[] or in an assignment to a variable
    that is used to subscript lusup[] - therefore has the leading dimension as one of its factors (columns * nsupr + rows)."""
    n = 0
    for fname in fnames:
        f = prog.func(fname)
        if f is None:
            continue
        arrs = set()
        for x in f.body.walk():
            if x.k == 'Ref' and x.a.get('name') in LUSUP_NAMES and x.a.get('id'):
                arrs.add(x.a['id'])
        if not arrs:
            continue
        # pointers into the block (lu_sup_ptr = &lusup[xlusup[fsupc]]) are subscripted like the block itself
        for x in f.body.walk():
            if x.k == 'Assign' and x.a['op'] == '=' and strip(x.c[0]).k == 'Ref' and strip(x.c[0]).a.get('id'):
                r = strip(x.c[1])
                if r.k == 'Unary' and r.a['op'] == '&' and strip(r.c[0]).k == 'Index' and strip(strip(r.c[0]).c[0]).k == 'Ref' \
                        and strip(strip(r.c[0]).c[0]).a.get('id') in arrs:
                    arrs.add(strip(x.c[0]).a['id'])
        # position variables: every variable named inside a subscript of the value array
        pos = set()
        subs = []
        for x in f.body.walk():
            if x.k == 'Index' and strip(x.c[0]).k == 'Ref' and strip(x.c[0]).a.get('id') in arrs:
                subs.append(x.c[1])
                for y in x.c[1].walk():
                    if y.k == 'Ref' and y.a.get('id') and y.a['id'] in f.locals and not _is_stride(f, y):
                        pos.add(y.a['id'])
        exprs = list(subs)
        for x in f.body.walk():
            if x.k == 'Assign' and x.a['op'] in ('=', '+=', '-=') and strip(x.c[0]).k == 'Ref' and strip(x.c[0]).a.get('id') in pos:
                exprs.append(x.c[1])
        seen = set()
        for e in exprs:
            for y in e.walk():
                if y.k == 'Binary' and y.a['op'] == '*' and id(y) not in seen:
                    # only the outermost product of a chain
                    fac = []

                    def flat(z):
                        z = strip(z)
                        if z.k == 'Binary' and z.a['op'] == '*':
                            seen.add(id(z))
                            flat(z.c[0]); flat(z.c[1])
                        else:
                            fac.append(z)
                    flat(y)
                    if any(z.k == 'Sizeof' for z in fac):
                        continue
                    n += 1
                    chk.saw(unit=f.unit, func=f.unit + ':' + f.name)
                    inst = '%s:column-offset-uses-leading-dimension:%s' % (f.name, pretty(y)[:30])
                    if any(_is_stride(f, z) for z in fac):
                        chk.ok(cid, inst)
                    else:
                        chk.violate(cid, inst, loc(f, y), f.name,
                                    '`%s` contributes to a position in the supernodal value block but none of its factors is the leading dimension of the '
                                    'block (the row count of the supernode): stepping over columns with any other stride addresses the wrong entries as soon as '
                                    'the supernode is not square' % pretty(y)[:50], cfgname=cfgname)
    return n


def run_factor(chk, cid, prog, cfgname):
    """rules on the numerical factorization kernels (the updates that produce L and U)"""
    chk.clause(cid + '.segsze', '2-D panel update: parked vectors touched for one set of segment sizes')
    chk.clause(cid + '.layout', 'tempv layout agreed between ?LUWorkInit, ?SetRWork and ?panel_bmod')
    chk.clause(cid + '.stride', 'column offsets into the supernodal value block use its leading dimension')
    n = 0
    for p in 'sdcz':
        n += segsze_guard_rule(chk, cid + '.segsze', prog, p + 'panel_bmod', cfgname)
        n += tempv_layout_rule(chk, cid + '.layout', prog, p, cfgname)
    fs = [f.name for f in prog.all_funcs() if f.unit.startswith('SRC/')]
    ns = lusup_stride_rule(chk, cid + '.stride', prog, fs, cfgname)
    if ns < 120:
        from ..run import AnalysisBroken
        raise AnalysisBroken('%s: %d products in supernodal positions found, floor 120' % (cid, ns))
    return n + ns


# ---------------------------------------------------------------- column pointers of the bundled unrolled dense kernels (?lsolve, ?matvec)
def _lin(e, env):
    """linear form {symbol: coeff} of a pointer/int expression over M0, ldm and 1; None if not linear"""
    e = strip(e)
    cv = const_value(e)
    if cv is not None:
        return {1: cv}
    if e.k == 'Ref':
        nm = e.a.get('name')
        if nm in env:
            return dict(env[nm])
        return {nm: 1}
    if e.k == 'Unary' and e.a['op'] == '&' and strip(e.c[0]).k == 'Index':
        ix = strip(e.c[0])
        a, b = _lin(ix.c[0], env), _lin(ix.c[1], env)
        return _add(a, b, 1)
    if e.k == 'Binary' and e.a['op'] in ('+', '-'):
        return _add(_lin(e.c[0], env), _lin(e.c[1], env), 1 if e.a['op'] == '+' else -1)
    if e.k == 'Binary' and e.a['op'] == '*':
        a, b = _lin(e.c[0], env), _lin(e.c[1], env)
        if a is None or b is None:
            return None
        if set(a) <= {1}:
            return {k: v * a.get(1, 0) for k, v in b.items()}
        if set(b) <= {1}:
            return {k: v * b.get(1, 0) for k, v in a.items()}
        return None
    return None


def _add(a, b, sign):
    if a is None or b is None:
        return None
    out = dict(a)
    for k, v in b.items():
        out[k] = out.get(k, 0) + sign * v
    return {k: v for k, v in out.items() if v != 0}


def unrolled_kernel_rule(chk, cid, prog, p, cfgname):
    """?lsolve / ?matvec walk w columns of a column-major block at once through pointers Mki0..Mki{w-1}.  In a block of width w the j-th pointer must
    start at  M0 + j*ldm + (j+1)  (first entry below the diagonal of column j) for the triangular solve and at  M0 + j*ldm  for the product, and M0
    must advance by  w*ldm + w  resp.  w*ldm.  The start offsets are computed as linear forms over (M0, ldm, 1) from the assignments of each block."""
    import re
    n = 0
    for fname, diag in ((p + 'lsolve', 1), (p + 'matvec', 0)):
        f = prog.func(fname)
        if f is None:
            continue        # not compiled in this configuration
        chk.saw(unit=f.unit, func=f.unit + ':' + f.name)
        blocks = [x for x in f.body.walk() if x.k in ('While', 'If')]
        for b in blocks:
            body = b.c[1]
            stmts = body.c if body.k == 'Block' else [body]
            env = {}
            ptrs = []
            adv = None
            for st in stmts:
                s2 = strip(st)
                if s2.k == 'Assign' and strip(s2.c[0]).k == 'Ref':
                    nm = strip(s2.c[0]).a['name']
                    m = re.match(r'Mki(\d+)$', nm)
                    if m and s2.a['op'] == '=':
                        lf = _lin(s2.c[1], env)
                        env[nm] = lf if lf is not None else {nm: 1}
                        ptrs.append((int(m.group(1)), lf, s2))
                    elif nm == 'M0' and s2.a['op'] == '+=':
                        adv = (_lin(s2.c[1], env), s2)
            if not ptrs:
                continue
            w = len(ptrs)
            for (j, lf, node) in ptrs:
                n += 1
                want = {'M0': 1}
                if j:
                    want['ldm'] = j
                if diag * (j + 1):
                    want[1] = diag * (j + 1)
                inst = '%s:width-%d:Mki%d-start' % (fname, w, j)
                if lf == want:
                    chk.ok(cid, inst)
                else:
                    chk.violate(cid, inst, loc(f, node), fname,
                                'in the %d-column block, `%s` must point to M0 + %d*ldm + %d (%s of column %d of the block); it evaluates to %s'
                                % (w, pretty(node)[:50], j, diag * (j + 1), 'the first entry below the diagonal' if diag else 'the top', j,
                                   _show(lf)), cfgname=cfgname)
            if adv is not None:
                n += 1
                want = {'ldm': w}
                if diag:
                    want[1] = w
                inst = '%s:width-%d:M0-advance' % (fname, w)
                if adv[0] == want:
                    chk.ok(cid, inst)
                else:
                    chk.violate(cid, inst, loc(f, adv[1]), fname, 'after a %d-column block M0 must advance by %d*ldm%s; it advances by %s'
                                % (w, w, ' + %d' % w if diag else '', _show(adv[0])), cfgname=cfgname)
    return n


def _show(lf):
    if lf is None:
        return 'a non-linear expression'
    parts = []
    for k in sorted(lf, key=str):
        parts.append(('%d' % lf[k]) if k == 1 else ('%s' % k if lf[k] == 1 else '%d*%s' % (lf[k], k)))
    return ' + '.join(parts) or '0'


def beta_zero_rule(chk, cid, prog, p, cfgname):
    """sp_?gemv documents `when BETA is supplied as zero then Y need not be set on input`: in the y := beta*y step the case beta == 0 has to *assign*
    zero (beta*y would keep a NaN/Inf that happens to be in y).  Both the unit-stride and the strided form of the step need the special case: under a
    test of beta against zero there is a loop whose only store to y is the constant zero."""
    f = prog.func('sp_%sgemv' % p)
    if f is None:
        from ..run import AnalysisBroken
        raise AnalysisBroken('sp_%sgemv not found' % p)
    chk.saw(unit=f.unit, func=f.unit + ':' + f.name)
    ids = {nm: i for (nm, i, t) in f.params}
    yid = ids.get('y')

    def tests_beta_zero(c):
        c = strip(c)
        if c.k == 'Binary' and c.a['op'] == '==':
            a, b = strip(c.c[0]), strip(c.c[1])
            if (a.k == 'Ref' and a.a.get('name') == 'beta' and _is_zero(b, f)) or (b.k == 'Ref' and b.a.get('name') == 'beta' and _is_zero(a, f)):
                return True
        # complex: z_eq(&beta, &comp_zero) expands to  (&beta)->r == (&comp_zero)->r && (&beta)->i == (&comp_zero)->i
        txt = pretty(c)
        if (c.k == 'Call' and callee_name(c) in ('z_eq', 'c_eq')) or (c.k == 'Binary' and c.a['op'] == '&&'):
            return 'beta' in txt and 'comp_zero' in txt and '||' not in txt and '!=' not in txt
        return False
    good = 0
    for x in f.body.walk():
        if x.k == 'If' and tests_beta_zero(x.c[0]):
            st = [y for y in x.c[1].walk() if y.k == 'Assign' and root_ref(y.c[0]) is not None and root_ref(y.c[0]).a.get('id') == yid]
            if st and all(y.a['op'] == '=' and _is_zero(y.c[1], f) for y in st) and any(z.k == 'For' for z in x.c[1].walk()):
                good += 1
    inst = '%s:beta-zero-assigns' % f.name
    if good >= 2:
        chk.ok(cid, inst, sample='%d branches assign zero to y when beta == 0' % good)
    else:
        chk.violate(cid, inst, loc(f, f.body), f.name,
                    'y := beta*y must assign zero when beta == 0 (documented: y need not be set on input), in the unit-stride and in the strided form; '
                    'found %d branch(es) that test beta against zero and store the constant zero to y' % good, cfgname=cfgname)
    return 1


def supernode_sweep_rule(chk, cid, prog, p, cfgname):
    """sp_?trsv sweeps the supernodes of L (or U) once: `for (k = 0; k <= nsuper; k++)` or `for (k = nsuper; k >= 0; k--)` (nsuper is the index of the
    last supernode).  Every supernode has to be solved: the loop body may not leave the iteration early (continue / break), and in the branch for
    supernodes of more than one column the triangular solve of the diagonal block is an unconditional statement."""
    f = prog.func('sp_%strsv' % p)
    if f is None:
        from ..run import AnalysisBroken
        raise AnalysisBroken('sp_%strsv not found' % p)
    chk.saw(unit=f.unit, func=f.unit + ':' + f.name)
    n = 0
    solvers = {p + 'trsv_', p + 'lsolve', p + 'usolve'}
    for lp in f.body.walk():
        if lp.k != 'For':
            continue
        cond = strip(lp.c[1])
        ctext = canon(cond, ids=False)
        if 'nsuper' not in ctext and not ('nsuper' in canon(lp.c[0], ids=False)):
            continue
        n += 1
        inst = '%s:supernode-sweep@%d' % (f.name, n)
        init = canon(lp.c[0], ids=False)
        up = 'nsuper' in ctext
        ok_bounds = (up and re.match(r'^\(k <= \w+->nsuper\)$', ctext) and re.match(r'^\(k = 0\)$', init)) or \
                    ((not up) and re.match(r'^\(k >= 0\)$', ctext) and re.match(r'^\(k = \w+->nsuper\)$', init))
        body = lp.c[3]
        early = [y for y in body.walk() if y.k in ('Continue', 'Break')]
        # continue/break that belong to an inner loop are fine
        inner = []
        for z in body.walk():
            if z.k in ('For', 'While'):
                inner += [id(y) for y in z.walk() if y.k in ('Continue', 'Break')]
        early = [y for y in early if id(y) not in inner]
        # the triangular solve of the diagonal block may only be guarded by the size of the supernode (else-part of `nsupc == 1`, then-part of `nsupc > 1`)
        found = []

        def walk(x, guards):
            if x.k == 'If':
                walk(x.c[1], guards + [(canon(x.c[0], ids=False), True)])
                if len(x.c) > 2:
                    walk(x.c[2], guards + [(canon(x.c[0], ids=False), False)])
                return
            if x.k in ('For', 'While') and x is not body:
                return      # a solve inside an inner loop is not the block solve
            if x.k == 'Call' and callee_name(x) in solvers:
                found.append(guards)
                return
            for c in x.c:
                walk(c, guards)
        walk(body, [])
        uncond = bool(found) and all(all((g == '(nsupc == 1)' and not pol) or (g == '(nsupc > 1)' and pol) for (g, pol) in gs) for gs in found)
        if ok_bounds and not early and uncond:
            chk.ok(cid, inst, sample='for (%s; %s; ..)' % (init, ctext))
        else:
            why = []
            if not ok_bounds:
                why.append('the loop `for (%s; %s; ...)` does not run over supernodes 0..nsuper inclusive' % (init, ctext))
            if early:
                why.append('the body leaves an iteration early at line %d' % early[0].line)
            if not uncond:
                why.append('the triangular solve of the diagonal block is not an unconditional statement of the multi-column branch')
            chk.violate(cid, inst, loc(f, (early or [lp])[0]), f.name, 'every supernode must be solved: ' + '; '.join(why), cfgname=cfgname)
    if n < 4:
        from ..run import AnalysisBroken
        raise AnalysisBroken('sp_%strsv: %d supernode sweeps found, expected at least 4' % (p, n))
    return n


def constant_names_rule(chk, cid, prog, cfgname, units=None):
    """Locals named zero / one / comp_zero / comp_one (and none) stand for constants: some statement relies on the value their initialiser gave them
    (x = comp_zero; z_eq(&beta, &comp_zero)).  A routine that also writes such a variable (the complex macros take an output operand:
    zz_mult(&comp_zero, a, b)) silently changes what the later uses mean.  For every such local: if it is ever written after its declaration, no
    statement may use it as a value (plain read that is not the operand of the macro sequence that just wrote it)."""
    names = {'zero', 'one', 'comp_zero', 'comp_one', 'none'}
    n = 0
    for f in prog.all_funcs():
        if f.unit.startswith('CBLAS/') or (units is not None and f.unit not in units):
            continue
        cands = {vid: v for vid, v in f.locals.items() if v.a.get('name') in names}
        if not cands:
            continue
        for vid, v in cands.items():
            writes = []
            for x in f.body.walk():
                if x.k == 'Assign':
                    r = root_ref(x.c[0])
                    if r is not None and r.a.get('id') == vid:
                        writes.append(x)
            if not writes:
                n += 1
                chk.ok(cid, '%s:%s:%s-is-constant' % (f.unit, f.name, v.a['name']), nontrivial=False)
                continue
            # it is written: then it must not also be used where its initial value is meant - a whole-object read (copied or compared as a constant)
            n += 1
            chk.saw(unit=f.unit, func=f.unit + ':' + f.name)
            wl = min(w.line for w in writes)
            whole = []
            for x in f.body.walk():
                if x.k == 'Assign' and x.a['op'] == '=' and strip(x.c[1]).k == 'Ref' and strip(x.c[1]).a.get('id') == vid:
                    whole.append(x)       # y = comp_zero
            inst = '%s:%s:%s-not-both-scratch-and-constant' % (f.unit, f.name, v.a['name'])
            if not whole:
                chk.ok(cid, inst, sample='written %d time(s), never copied as a constant' % len(writes))
            else:
                chk.violate(cid, inst, loc(f, whole[0]), f.name,
                            '`%s` copies `%s` as a constant, but the routine also writes that variable (first at line %d, e.g. as the output operand of a complex '
                            'multiply): after that it no longer holds its initial value' % (pretty(whole[0])[:40], v.a['name'], wl), cfgname=cfgname)
    return n


# dense matrix operands of the level-3 / level-2 BLAS calls: callee suffix -> [(index of the matrix argument, index of its leading dimension)]
DENSE_OPERANDS = {'trsm_': [(7, 8), (9, 10)], 'gemm_': [(6, 7), (8, 9), (11, 12)], 'trsv_': [(4, 5)], 'gemv_': [(4, 5)]}


def leading_dimension_agreement(chk, cid, prog, fnames, cfgname, floor=4):
    """A dense column-major block lives in one array with one leading dimension.  Within a routine, every way a column of that array is
    addressed - `&X[j*LD]`, `X[i + j*LD]`, and the (matrix, ld) argument pairs of ?gemm_/?trsm_/?gemv_/?trsv_ - must use the same LD.  The
    scratch block `work` of ?gstrs is n x nrhs (filled by ?gemm_ with ldc = n): reading its columns with the leading dimension of B finds the
    products of the first right-hand side only when ldb == n."""
    chk.clause(cid, 'each dense array is addressed with a single leading dimension (column addresses and BLAS operand pairs agree)')
    n = 0
    for fname in fnames:
        f = prog.func(fname)
        if f is None:
            from ..run import AnalysisBroken
            raise AnalysisBroken('%s not found' % fname)
        chk.saw(unit=f.unit, func=f.unit + ':' + f.name)
        loopvars = set()
        for x in f.body.walk():
            if x.k == 'For' and x.c[0] is not None:
                i0 = strip(x.c[0])
                if i0.k == 'Assign' and strip(i0.c[0]).k == 'Ref':
                    loopvars.add(strip(i0.c[0]).a.get('id'))
        uses = {}       # base array id -> {ld text: node}
        names = {}

        def note(base, ld, node):
            if base is None or ld is None:
                return
            uses.setdefault(base.a.get('id'), {}).setdefault(canon(ld, ids=False).replace(' ', ''), node)
            names[base.a.get('id')] = base.a.get('name')

        def unc(e):
            e = strip(e)
            while e.k == 'Cast':
                e = strip(e.c[0])
            return e
        # a pointer that walks the columns of an array (`P = &X[..]; ... P += LD;`) uses LD as the leading dimension of X
        walker = {}
        for x in f.body.walk():
            if x.k == 'Assign' and x.a['op'] == '=' and strip(x.c[0]).k == 'Ref':
                r = strip(x.c[1])
                if r.k == 'Unary' and r.a['op'] == '&' and strip(r.c[0]).k == 'Index' and strip(strip(r.c[0]).c[0]).k == 'Ref':
                    walker.setdefault(strip(x.c[0]).a.get('id'), set()).add(strip(strip(r.c[0]).c[0]).a.get('id'))
        refs_by_id = {}
        for x in f.body.walk():
            if x.k == 'Ref':
                refs_by_id.setdefault(x.a.get('id'), x)
        for x in f.body.walk():
            if x.k == 'Assign' and x.a['op'] == '+=' and strip(x.c[0]).k == 'Ref' and strip(x.c[0]).a.get('id') in walker and strip(x.c[1]).k == 'Ref' \
                    and strip(x.c[1]).a.get('id') not in loopvars:
                bases = walker[strip(x.c[0]).a.get('id')]
                if len(bases) == 1:
                    note(refs_by_id.get(next(iter(bases))), strip(x.c[1]), x)
        for x in f.body.walk():
            if x.k == 'Index':
                base = root_ref(x)
                if base is None or strip(x.c[0]).k != 'Ref':
                    continue
                for y in x.c[1].walk():
                    if y.k == 'Binary' and y.a['op'] == '*':
                        a, b = unc(y.c[0]), unc(y.c[1])
                        if a.k == 'Ref' and b.k == 'Ref':
                            ia, ib = a.a.get('id') in loopvars, b.a.get('id') in loopvars
                            if ia != ib:
                                note(base, b if ia else a, x)
            elif x.k == 'Call':
                nm = callee_name(x) or ''
                for suf, pairs in DENSE_OPERANDS.items():
                    if nm.endswith(suf) and len(nm) == len(suf) + 1:
                        args = x.c[1:]
                        for (mi, li) in pairs:
                            if mi < len(args) and li < len(args):
                                m_, l_ = strip(args[mi]), strip(args[li])
                                if l_.k == 'Unary' and l_.a['op'] == '&':
                                    note(root_ref(m_), l_.c[0], x)
        # binding: X = S->nzval is a block of the dense matrix whose storage record is S; its leading dimension is S->lda
        store_of, ld_store = {}, {}
        for x in f.body.walk():
            if x.k == 'Assign' and x.a['op'] == '=' and strip(x.c[0]).k == 'Ref':
                r = unc(x.c[1])
                if r.k == 'Member' and r.a.get('arrow') and strip(r.c[0]).k == 'Ref':
                    if r.a.get('name') == 'nzval':
                        store_of.setdefault(strip(x.c[0]).a.get('id'), set()).add(strip(r.c[0]).a.get('name'))
                    elif r.a.get('name') == 'lda':
                        ld_store.setdefault(strip(x.c[0]).a.get('name'), set()).add(strip(r.c[0]).a.get('name'))
        for bid, lds in sorted(uses.items(), key=lambda kv: names[kv[0]]):
            for ld, node in sorted(lds.items()):
                if bid in store_of and ld in ld_store and len(store_of[bid]) == 1 and len(ld_store[ld]) == 1 and store_of[bid] != ld_store[ld]:
                    n += 1
                    chk.violate(cid, '%s:%s:leading-dimension-of-its-own-store' % (fname, names[bid]), loc(f, node), fname,
                                '`%s` holds the values of %s but is addressed with %s, the leading dimension of %s (`%s`): right only while the two matrices '
                                'happen to have the same leading dimension' % (names[bid], sorted(store_of[bid])[0], ld, sorted(ld_store[ld])[0], pretty(node)[:50]),
                                cfgname=cfgname)
        for bid, lds in sorted(uses.items(), key=lambda kv: names[kv[0]]):
            if names[bid] in LUSUP_NAMES:
                continue            # the supernode block: its stride discipline is the subject of lusup_stride_rule
            n += 1
            inst = '%s:%s:one-leading-dimension' % (fname, names[bid])
            if len(lds) == 1:
                chk.ok(cid, inst, sample='%s is always addressed with leading dimension %s' % (names[bid], next(iter(lds))), nontrivial=True)
            else:
                (l1, n1), (l2, n2) = sorted(lds.items(), key=lambda kv: kv[1].line)[:2]
                chk.violate(cid, inst, loc(f, n2), fname,
                            '`%s` is addressed with leading dimension %s (line %d: `%s`) and with %s (line %d: `%s`): one of the two reads or writes the '
                            'wrong columns whenever the two values differ' % (names[bid], l1, n1.line, pretty(n1)[:50], l2, n2.line, pretty(n2)[:50]),
                            cfgname=cfgname)
    if n < floor:
        from ..run import AnalysisBroken
        raise AnalysisBroken('%s: %d dense arrays with a leading dimension found, floor %d' % (cid, n, floor))
    return n


def paired_cursor_rule(chk, cid, prog, fnames, cfgname, floor=4):
    """A supernode of L stores its row subscripts once (Lstore->rowind from rowind_colptr[fsupc]) and the values of each column from
    nzval_colptr[col], entry k of a column belonging to subscript k of the list.  The scalar loops of sp_?trsv / ?gstrs walk both with two
    cursors.  At every use `Lval[Q]` together with a row taken from `Lstore->rowind[P]` in the same iteration the two cursors must be the same
    distance from their starts: (P - rowind_colptr[fsupc]) == (Q - nzval_colptr[col]).  The distances are linear forms (constant + symbols such
    as nsupc) that advance by the increments executed before the use; both must advance by one per iteration."""
    from .expand import _lin
    chk.clause(cid, 'subscript cursor and value cursor of a supernode column are equally far from their starts wherever they are used together')
    n = 0

    def is_member_index(e, field):
        e = strip(e)
        return e.k == 'Index' and strip(e.c[0]).k == 'Member' and strip(e.c[0]).a.get('name') == field

    for fname in fnames:
        f = prog.func(fname)
        if f is None:
            from ..run import AnalysisBroken
            raise AnalysisBroken('%s not found' % fname)
        chk.saw(unit=f.unit, func=f.unit + ':' + f.name)
        # variables that hold a start: v = Lstore->rowind_colptr[..]  /  v = Lstore->nzval_colptr[..]
        starts = {}
        for x in f.body.walk():
            if x.k == 'Assign' and x.a['op'] == '=' and strip(x.c[0]).k == 'Ref':
                for field, kind in (('rowind_colptr', 'sub'), ('nzval_colptr', 'val')):
                    if is_member_index(x.c[1], field):
                        starts[strip(x.c[0]).a.get('id')] = kind

        def offset(e):
            """(kind, linear offset) of a cursor expression relative to a start, or None"""
            e = strip(e)
            for field, kind in (('rowind_colptr', 'sub'), ('nzval_colptr', 'val')):
                if is_member_index(e, field):
                    return (kind, {})
            if e.k == 'Ref' and e.a.get('id') in starts:
                return (starts[e.a.get('id')], {})
            if e.k == 'Binary' and e.a['op'] in ('+', '-'):
                a = offset(e.c[0])
                b = _lin(e.c[1])
                if a is not None and b is not None:
                    out = dict(a[1])
                    for k_, c in b.items():
                        out[k_] = out.get(k_, 0) + (c if e.a['op'] == '+' else -c)
                    return (a[0], {k_: c for k_, c in out.items() if c})
            return None

        def enclosing_blocks(target):
            path = []

            def find(nd, stack):
                if nd is target:
                    path.extend(stack)
                    return True
                for c in nd.c:
                    if find(c, stack + [nd]):
                        return True
                return False
            find(f.body, [])
            return path
        for lp in f.body.walk():
            if lp.k != 'For' or any(y.k == 'For' for y in lp.c[3].walk()):
                continue
            body = lp.c[3].c if lp.c[3].k == 'Block' else [lp.c[3]]
            if not any(is_member_index(y, 'rowind') for st in body for y in st.walk()):
                continue
            if not any(y.k == 'Index' and strip(y.c[0]).k == 'Ref' and strip(y.c[0]).a.get('name') == 'Lval' for st in body for y in st.walk()):
                continue
            # cursor values at loop entry
            cur = {}
            i0 = strip(lp.c[0]) if lp.c[0] is not None else None
            if i0 is not None and i0.k == 'Assign' and strip(i0.c[0]).k == 'Ref':
                o = offset(i0.c[1])
                if o:
                    cur[strip(i0.c[0]).a.get('id')] = o
            path = enclosing_blocks(lp)
            wanted = {y.a.get('id') for st in body for y in st.walk() if y.k == 'Ref' and y.a.get('dk') == 'VarDecl'} - set(cur)
            for anc, child in zip(reversed(path), reversed(path[1:] + [lp])):
                if anc.k != 'Block':
                    continue
                idx = next((k_ for k_, st in enumerate(anc.c) if st is child), None)
                if idx is None:
                    continue
                for st in reversed(anc.c[:idx]):
                    s0 = strip(st)
                    if s0.k == 'Assign' and s0.a['op'] == '=' and strip(s0.c[0]).k == 'Ref' and strip(s0.c[0]).a.get('id') in wanted:
                        o = offset(s0.c[1])
                        vid = strip(s0.c[0]).a.get('id')
                        if o and vid not in cur:
                            cur[vid] = o
                        wanted.discard(vid)
            per_iter = {}

            def bump(vid, d):
                if vid in cur:
                    k_, lf = cur[vid]
                    lf = dict(lf)
                    lf[1] = lf.get(1, 0) + d
                    cur[vid] = (k_, {a: c for a, c in lf.items() if c})
                    per_iter[vid] = per_iter.get(vid, 0) + d
            rows = {}       # row variable -> offset of the subscript cursor when it was loaded
            uses = []
            for st in body:
                for x in _post(st):
                    if x.k == 'Unary' and x.a['op'] in ('++', '--') and strip(x.c[0]).k == 'Ref':
                        bump(strip(x.c[0]).a.get('id'), 1 if x.a['op'] == '++' else -1)
                    elif x.k == 'Assign' and x.a['op'] in ('+=', '-=') and strip(x.c[0]).k == 'Ref' and const_value(x.c[1]) is not None:
                        bump(strip(x.c[0]).a.get('id'), const_value(x.c[1]) * (1 if x.a['op'] == '+=' else -1))
                    elif x.k == 'Assign' and x.a['op'] == '=' and strip(x.c[0]).k == 'Ref' and is_member_index(x.c[1], 'rowind'):
                        p_ = strip(strip(x.c[1]).c[1])
                        if p_.k == 'Ref' and p_.a.get('id') in cur and cur[p_.a.get('id')][0] == 'sub':
                            rows[strip(x.c[0]).a.get('id')] = (cur[p_.a.get('id')], p_)
                    elif x.k == 'Index' and strip(x.c[0]).k == 'Ref' and strip(x.c[0]).a.get('name') == 'Lval':
                        q_ = strip(x.c[1])
                        if q_.k == 'Ref' and q_.a.get('id') in cur and cur[q_.a.get('id')][0] == 'val':
                            uses.append((x, cur[q_.a.get('id')], q_, st))
            # the loop's own increment expression
            if lp.c[2] is not None:
                for x in _post(lp.c[2]):
                    if x.k == 'Unary' and x.a['op'] in ('++', '--') and strip(x.c[0]).k == 'Ref':
                        per_iter[strip(x.c[0]).a.get('id')] = per_iter.get(strip(x.c[0]).a.get('id'), 0) + (1 if x.a['op'] == '++' else -1)
            for (use, (kq, offq), q_, st) in uses:
                rv = [y for y in st.walk() if y.k == 'Ref' and y.a.get('id') in rows]
                if not rv:
                    # complex arithmetic: the product goes through a temporary, the row appears in the following call
                    k0 = next((k_ for k_, b_ in enumerate(body) if b_ is st), None)
                    nxt = [b_ for b_ in body[(k0 or 0) + 1:] if b_.k != 'Empty'][:1] if k0 is not None else []
                    if nxt:
                        rv = [y for y in nxt[0].walk() if y.k == 'Ref' and y.a.get('id') in rows]
                if not rv:
                    continue
                (ks, offs), p_ = rows[rv[0].a.get('id')]
                n += 1
                inst = '%s:cursors-aligned@%d' % (fname, n)
                same_rate = per_iter.get(q_.a.get('id'), 0) == per_iter.get(p_.a.get('id'), 0) == 1
                if offs == offq and same_rate:
                    chk.ok(cid, inst, sample='`%s`: %s and %s are both %s entries past their starts' % (pretty(st)[:50], p_.a['name'], q_.a['name'], _lf_text(offs)))
                else:
                    chk.violate(cid, inst, loc(f, use), fname,
                                'in `%s` the row comes from subscript %s of the supernode list but the value is entry %s of the column (%s / %s advance by %d / %d per '
                                'iteration): the product pairs a row with the value of another row' % (pretty(st)[:60], _lf_text(offs), _lf_text(offq), p_.a['name'],
                                q_.a['name'], per_iter.get(p_.a.get('id'), 0), per_iter.get(q_.a.get('id'), 0)), cfgname=cfgname)
    if n < floor:
        from ..run import AnalysisBroken
        raise AnalysisBroken('%s: %d paired cursor uses found, floor %d' % (cid, n, floor))
    return n


def _post(e):
    for c in e.c:
        for y in _post(c):
            yield y
    yield e


def _lf_text(lf):
    if not lf:
        return '0'
    parts = []
    for k_, c in sorted(lf.items(), key=lambda kv: str(kv[0])):
        parts.append(str(c) if k_ == 1 else ('%s*v%s' % (c, k_[1]) if c != 1 else 'v%s' % (k_[1],)))
    return ' + '.join(parts)
